#!/bin/sh
# usage: multiseed.sh <tier> <seed>...   runs every check at the given seeds; prints one line per run
# CHECK_ORDER (optional): space separated list of check ids to run, in that order
tier=$1; shift
ids=${CHECK_ORDER:-"C01 C02 C03 C04 C05 C06 C07 C08 C09 C10 C11 C12 C13 C14 C15 C16 C17 C18 C19 C20"}
for s in "$@"; do
  for id in $ids; do
    out=$(VERIF_SEED=$s ./check $id $tier 2>&1); rc=$?
    echo "seed=$s $id rc=$rc $(echo "$out" | grep -E '^(OK|VIOLATION|INCONCLUSIVE)' | head -2 | tr '\n' ' ' | cut -c1-220)"
  done
done
