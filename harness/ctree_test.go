package h

import (
	"bytes"
	"encoding/json"
	"fmt"
	"github.com/ethereum/go-ethereum/crypto"
	"testing"

	avm "github.com/artela-network/artela-evm/vm"
	"github.com/ethereum/go-ethereum/core/state"
	"pgregory.net/rapid"
)

// ---- C07 (call tree is a well-formed tree) and C08 (call tree fidelity) -----

type treeRunOut struct {
	art      *ArtelaRun
	fl       *FrameLog
	attempts []*Attempt
	shapeErr string // first structural violation seen after a top-level return
	panicMsg string
}

// treeShape checks the structural invariants of the recorded call tree for
// the first n expected nodes.
func treeShape(ct *avm.CallTree, n int) string {
	if ct.Current() != nil {
		return fmt.Sprintf("a call is left open: Current() has index %d", ct.Current().Index)
	}
	nodes := make([]*avm.Call, 0, n)
	for i := 0; ; i++ {
		c := ct.FindCall(uint64(i))
		if c == nil {
			break
		}
		nodes = append(nodes, c)
		if i > n+4 {
			break
		}
	}
	if len(nodes) != n {
		return fmt.Sprintf("call tree has %d nodes with dense indices, %d call attempts were made", len(nodes), n)
	}
	if n > 0 && ct.Root() != nodes[0] {
		return "Root() is not the node with index 0"
	}
	seen := map[*avm.Call]bool{}
	for i, c := range nodes {
		if c.Index != uint64(i) {
			return fmt.Sprintf("FindCall(%d) returns a node carrying index %d", i, c.Index)
		}
		if seen[c] {
			return fmt.Sprintf("node %d appears twice", i)
		}
		seen[c] = true
		if c.Parent == nil {
			if !c.IsRoot() || c.ParentIndex() != -1 || ct.ParentOf(uint64(i)) != nil {
				return fmt.Sprintf("node %d: accessors disagree with nil parent", i)
			}
		} else {
			if c.IsRoot() || c.ParentIndex() != int64(c.Parent.Index) || ct.ParentOf(uint64(i)) != c.Parent {
				return fmt.Sprintf("node %d: accessors disagree with parent link", i)
			}
			if c.Parent.Index >= c.Index {
				return fmt.Sprintf("node %d has parent %d (not smaller)", i, c.Parent.Index)
			}
			if int(c.Parent.Index) >= len(nodes) || nodes[c.Parent.Index] != c.Parent {
				return fmt.Sprintf("node %d: parent is not the node carrying its index", i)
			}
			cnt := 0
			for _, ch := range c.Parent.Children {
				if ch == c {
					cnt++
				}
			}
			if cnt != 1 {
				return fmt.Sprintf("node %d appears %d times among its parent's children", i, cnt)
			}
		}
		kids := ct.ChildrenOf(uint64(i))
		idx := c.ChildrenIndices()
		if len(kids) != len(c.Children) || len(idx) != len(c.Children) {
			return fmt.Sprintf("node %d: ChildrenOf/ChildrenIndices lengths disagree", i)
		}
		prev := int64(-1)
		for k, ch := range c.Children {
			if kids[k] != ch || idx[k] != ch.Index {
				return fmt.Sprintf("node %d: child accessors disagree at %d", i, k)
			}
			if ch.Parent != c {
				return fmt.Sprintf("node %d lists child %d whose parent is another node", i, ch.Index)
			}
			if int64(ch.Index) <= prev {
				return fmt.Sprintf("node %d: children indices not strictly increasing", i)
			}
			prev = int64(ch.Index)
		}
	}
	// every node is reachable from a parentless node
	reach := map[*avm.Call]bool{}
	var walk func(c *avm.Call)
	walk = func(c *avm.Call) {
		if reach[c] {
			return
		}
		reach[c] = true
		for _, ch := range c.Children {
			walk(ch)
		}
	}
	for _, c := range nodes {
		if c.Parent == nil {
			walk(c)
		}
	}
	if len(reach) != len(nodes) {
		return fmt.Sprintf("%d nodes reachable from parentless nodes, %d indexed", len(reach), len(nodes))
	}
	return ""
}

func runTree(sc *Scenario, keepMem bool) *treeRunOut {
	out := &treeRunOut{}
	rec := NewRecorder()
	rec.KeepMem = keepMem
	var perInv []string
	art := RunArtela(sc, ArtelaOpts{Debug: true, Rec: rec, AfterInv: func(i int, evm *avm.EVM, st *state.StateDB, obs *Obs) {
		// structural check after EVERY top-level return; the expected count is filled in later
		perInv = append(perInv, "")
		// cheap invariant available right away
		if cur := evm.Tracer().CallTree().Current(); cur != nil && obs.Panic == "" {
			perInv[len(perInv)-1] = fmt.Sprintf("after invocation %d a call is left open (index %d)", i, cur.Index)
		}
	}})
	out.art = art
	for i := range art.Obs {
		if art.Obs[i].Panic != "" {
			out.panicMsg = fmt.Sprintf("invocation %d: %s", i, art.Obs[i].Panic)
			return out
		}
	}
	for _, s := range perInv {
		if s != "" && out.shapeErr == "" {
			out.shapeErr = s
		}
	}
	fl, err := BuildFrames(rec.Evs)
	if err != nil {
		out.shapeErr = "event stream not balanced: " + err.Error()
		return out
	}
	out.fl = fl
	out.attempts = BuildAttempts(sc, rec.Evs, fl, art.Obs)
	return out
}

func genTreeOrProg(t *rapid.T, nFaultsMax int) *Scenario {
	var sc *Scenario
	switch r := uniform(t, 0, 19, "family"); {
	case r < 11:
		sc = GenTreeScenario(t, TreeCfg{MaxInvs: 4, AllKinds: true, EmptyData: 20, ValuePct: 40, LowGasPct: 20})
	case r < 19:
		sc = GenProgScenario(t, ProgCfg{NoArtelaPre: true})
		for i := range sc.Invs {
			sc.Invs[i].JP = true
		}
	default:
		if chance(t, 35, "depthfam") {
			sc = depthScenario(t)
		} else if chance(t, 40, "collisionfam") {
			sc = collisionScenario(t)
		} else {
			sc = GenTreeScenario(t, TreeCfg{MaxInvs: 2, AllKinds: true, EmptyData: 20, ValuePct: 40, LowGasPct: 20})
		}
	}
	if nFaultsMax > 0 && chance(t, 40, "faults") {
		n := rapid.IntRange(1, nFaultsMax).Draw(t, "nfaults")
		for i := 0; i < n; i++ {
			sc.Faults = append(sc.Faults, Fault{Lookup: rapid.IntRange(0, 14).Draw(t, "faultat"), Text: []string{"injected provider failure", "out of gas", "execution reverted"}[uniform(t, 0, 2, "faulttext")]})
		}
	}
	return sc
}

// depthScenario: unbounded self recursion on a fork without the 63/64 rule
// reaches the 1024 call-depth limit.
func depthScenario(t *rapid.T) *Scenario {
	a := NewAsm()
	self := ContractAddrs[0]
	kind := []byte{CALL, CALL, CALLCODE, DELEGATECALL}[uniform(t, 0, 3, "depthkind")]
	fork := ForkNames[uniform(t, 1, 1, "depthfork")] // Homestead: DELEGATECALL exists, no EIP-150
	withCreate := rapid.Bool().Draw(t, "depthcreate")
	margin := uint64(12000)
	if withCreate {
		margin = 80000
	}
	a.Push(0).Push(0).Push(0).Push(0)
	if kind != DELEGATECALL {
		a.Push(uint64(uniform(t, 0, 1, "depthvalue")))
	}
	// before EIP-150 asking for more gas than is left is an error: leave a margin
	a.Push(self[:]).Push(margin).Op(GAS, SUB, kind)
	a.Push(1).Op(SSTORE) // slot 1 := success flag of the call
	if withCreate {
		// every frame, also the deepest one (where it is refused for depth), creates
		a.Push(0).Push(0).Push(uint64(uniform(t, 0, 1, "depthcv"))).Op(CREATE).Push(2).Op(SSTORE)
	}
	a.Op(STOP)
	sc := &Scenario{Fork: fork, Note: "depth"}
	sc.Accounts = []Account{{Addr: self, Nonce: 1, Code: a.Bytes(), Balance: hexU64(100000)}, {Addr: EOAAddr, Balance: hexU64(1 << 50), Nonce: 1}}
	sc.Invs = []Invocation{{Kind: "call", Origin: EOAAddr, Caller: EOAAddr, To: self, Gas: 300_000_000, JP: rapid.Bool().Draw(t, "depthjp")}}
	return sc
}

// collisionScenario: a creation refused for ADDRESS COLLISION (the same CREATE2
// twice; a CREATE whose target already has a nonce / code), in the entry contract
// or one call below it, followed by more calls, creations and journal records of
// the frame that issued it.
func collisionScenario(t *rapid.T) *Scenario {
	fork := ForkNames[uniform(t, 5, 12, "colfork")]
	A, B, C := ContractAddrs[0], ContractAddrs[1], ContractAddrs[2]
	initc := InitCodeReturning([]byte{0x60, 0x01, 0x60, 0x07, SSTORE, STOP})
	if chance(t, 30, "colinit") {
		initc = InitCodeReturning(nil) // empty code: the nonce alone makes the second one collide
	}
	create2 := rapid.Bool().Draw(t, "col2")
	body := func(a *Asm) {
		a.MstoreBytes(0, initc)
		emit := func() {
			if create2 {
				a.Push(5).Push(len(initc)).Push(0).Push(uint64(uniform(t, 0, 1, "colv"))).Op(CREATE2)
			} else {
				a.Push(len(initc)).Push(0).Push(uint64(uniform(t, 0, 1, "colv"))).Op(CREATE)
			}
			a.Push(uint64(0x20 + uniform(t, 0, 3, "colslot"))).Op(SSTORE)
		}
		emit()
		if create2 {
			emit() // same salt, same init code: refused
		}
		// afterwards: calls, a creation that is fine, a journal record
		n := uniform(t, 1, 3, "colafter")
		for i := 0; i < n; i++ {
			switch uniform(t, 0, 2, "colwhat") {
			case 0:
				a.Push(0).Push(0).Push(0).Push(0).Push(uint64(uniform(t, 0, 1, "colcv"))).Push(C[:]).Push(50000).Op(CALL, POP)
			case 1:
				a.Push(len(initc)).Push(0).Push(0).Op(CREATE, POP)
			default:
				c := &codeGen{a: a}
				k := jTopValue[0]
				c.registerKey(k)
				c.journalChange(k)
				a.MstoreBytes(0, initc)
			}
		}
		a.Op(STOP)
	}
	sc := &Scenario{Fork: fork, Note: "collision"}
	nested := rapid.Bool().Draw(t, "colnested")
	creator := A
	if nested {
		creator = B
	}
	ca := NewAsm()
	body(ca)
	sc.Accounts = []Account{{Addr: creator, Nonce: 1, Code: ca.Bytes(), Balance: hexU64(1000)},
		{Addr: C, Nonce: 1, Code: []byte{0x60, 0x01, 0x60, 0x01, SSTORE, STOP}}, {Addr: EOAAddr, Balance: hexU64(1 << 50), Nonce: 1}}
	if nested {
		pa := NewAsm()
		pa.Push(0).Push(0).Push(0).Push(0).Push(0).Push(B[:]).Push(900000).Op(CALL).Push(1).Op(SSTORE)
		pa.Push(0).Push(0).Push(0).Push(0).Push(0).Push(C[:]).Push(50000).Op(CALL).Push(2).Op(SSTORE, STOP)
		sc.Accounts = append(sc.Accounts, Account{Addr: A, Nonce: 1, Code: pa.Bytes(), Balance: hexU64(1000)})
	}
	if !create2 {
		// the address the first CREATE of the creator would get is already taken
		taken := crypto.CreateAddress(creator, 1)
		acc := Account{Addr: taken, Nonce: 1}
		if rapid.Bool().Draw(t, "coltakencode") {
			acc = Account{Addr: taken, Code: []byte{STOP}}
		}
		sc.Accounts = append(sc.Accounts, acc)
	}
	ninv := uniform(t, 1, 2, "colinv")
	for i := 0; i < ninv; i++ {
		sc.Invs = append(sc.Invs, Invocation{Kind: "call", Origin: EOAAddr, Caller: EOAAddr, To: A, Gas: 2_000_000, JP: rapid.Bool().Draw(t, "coljp")})
	}
	return sc
}

func treeLabels(sc *Scenario, r *treeRunOut) (labels []string, nodes, failed, maxDepth int) {
	for _, a := range r.attempts {
		nodes++
		if a.Failed {
			failed++
		}
		if a.Frame != nil && a.Frame.Depth+1 > maxDepth {
			maxDepth = a.Frame.Depth + 1
		}
		if a.Frame == nil && !a.Top {
			labels = append(labels, "refused-attempt")
		}
	}
	if sc.Note == "depth" {
		labels = append(labels, "depth-limit-template")
	}
	if maxDepth >= 1024 {
		labels = append(labels, "depth-limit-reached")
	}
	if len(sc.Faults) > 0 {
		labels = append(labels, "provider-faults")
	}
	if len(sc.Invs) > 1 {
		labels = append(labels, "multi-invocation")
	}
	labels = append(labels, "fork:"+sc.Fork)
	return
}

func checkC07(sc *Scenario, st *Stats) *Violation {
	r := runTree(sc, false)
	if r.panicMsg != "" {
		return violf("panic", "the VM panicked: %.1500s", r.panicMsg)
	}
	if r.shapeErr != "" {
		return violf("shape", "%s", r.shapeErr)
	}
	ct := r.art.EVM.Tracer().CallTree()
	if s := treeShape(ct, len(r.attempts)); s != "" {
		return violf("shape", "%s", s)
	}
	// parent links agree with the frame nesting seen in the event stream, and
	// indices follow the order of entry
	byFrame := map[*Frame]int{}
	for i, a := range r.attempts {
		if a.Frame != nil {
			byFrame[a.Frame] = i
		}
	}
	for i, a := range r.attempts {
		c := ct.FindCall(uint64(i))
		want := -1
		if a.Issuer != nil {
			if anc := RecordedAncestor(a.Issuer); anc != nil {
				if j, ok := byFrame[anc]; ok {
					want = j
				}
			}
		}
		got := int(c.ParentIndex())
		if got != want {
			return violf("parent", "node %d: parent index %d, but the call was issued under attempt %d", i, got, want)
		}
	}
	labels, nodes, failed, depth := treeLabels(sc, r)
	nontrivial := nodes >= 3 && failed >= 1 && depth >= 2
	st.LabelN("nodes", nodes)
	st.Case(sc.JSON(), nontrivial, sc, labels...)
	return nil
}

func errTextOf(err error) string {
	if err == nil {
		return ""
	}
	return err.Error()
}

func checkC08(sc *Scenario, st *Stats) *Violation {
	r := runTree(sc, true)
	if r.panicMsg != "" {
		return violf("panic", "the VM panicked: %.1500s", r.panicMsg)
	}
	if r.shapeErr != "" {
		// the links are C07's business; the recorded fields are compared node by node
		// in creation order all the same (attempt i is node i whatever its links say)
		st.Label("shape-broken(C07)")
	}
	ct := r.art.EVM.Tracer().CallTree()
	overwritten := false
	for i, a := range r.attempts {
		c := ct.FindCall(uint64(i))
		if c == nil {
			return violf("missing", "call attempt %d (%s at event %d) is not in the call tree", i, opName2(a.Op), a.Ev)
		}
		where := fmt.Sprintf("node %d (%s issued at event %d, inv %d)", i, opName2(a.Op), a.Ev, a.Inv)
		if c.From != a.From {
			return violf("from", "%s: From %x, caller was %x", where, c.From, a.From)
		}
		if (c.To == nil) != (a.To == nil) || (c.To != nil && *c.To != *a.To) {
			return violf("to", "%s: To %v, target was %v", where, c.To, a.To)
		}
		if c.Value == nil || !c.Value.Eq(a.Value) {
			return violf("value", "%s: Value %v, value was %v", where, c.Value, a.Value)
		}
		if a.GasKnown && (c.Gas == nil || !c.Gas.IsUint64() || c.Gas.Uint64() != a.Gas) {
			return violf("gas", "%s: Gas %v, supplied gas was %d", where, c.Gas, a.Gas)
		}
		if a.Data != nil || a.Top {
			if !bytes.Equal(c.Data, a.Data) {
				// was the argument area written after the call was made?
				return violf("data", "%s: recorded calldata/init code differs from the bytes at the moment of the call\n recorded: %x\n at call:  %x", where, c.Data, a.Data)
			}
		}
		if a.RetKnown && !bytes.Equal(c.Ret, a.Ret) {
			return violf("ret", "%s: Ret %x, handed back %x", where, c.Ret, a.Ret)
		}
		if a.ErrKnown && errTextOf(c.Err) != a.ErrText {
			return violf("err", "%s: Err %q, frame ended with %q", where, errTextOf(c.Err), a.ErrText)
		}
		// refused attempts have no frame whose error could be compared: there the
		// recorded error must at least agree with what the caller saw (0 pushed).
		// (With a frame the texts were compared above; on Frontier a create whose
		// code deposit runs out of gas reports that error AND pushes the address.)
		if !a.ErrKnown && (c.Err != nil) != a.Failed {
			// creates at top level report failure through err only (a.Failed set from err)
			return violf("err", "%s: Err %v but the caller saw failed=%v", where, c.Err, a.Failed)
		}
		if a.RetGasOK && c.RemainingGas != a.Returned {
			return violf("remaining-gas", "%s: RemainingGas %d, the caller got back %d", where, c.RemainingGas, a.Returned)
		}
	}
	if ct.FindCall(uint64(len(r.attempts))) != nil {
		return violf("extra", "call tree has more nodes than the %d call attempts made", len(r.attempts))
	}
	// classification: was some argument window overwritten afterwards?
	evs := r.art.Rec.Evs
	for _, a := range r.attempts {
		if a.Ev < 0 || a.Issuer == nil || len(a.Data) == 0 {
			continue
		}
		e := &evs[a.Ev]
		n := len(e.Stack)
		var off uint64
		if a.Op == CALL {
			off = e.Stack[n-4].Uint64()
		} else {
			off = e.Stack[n-2].Uint64()
		}
		last := a.Issuer.Last
		if last > a.Ev && evs[last].Mem != nil {
			now := memWindow(evs[last].Mem, off, uint64(len(a.Data)))
			if !bytes.Equal(now, a.Data) {
				overwritten = true
			}
		}
	}
	labels, nodes, failed, _ := treeLabels(sc, r)
	refused := false
	for _, l := range labels {
		if l == "refused-attempt" {
			refused = true
		}
	}
	if overwritten {
		labels = append(labels, "argument-window-overwritten-later")
	}
	_ = failed
	nontrivial := overwritten || refused
	st.LabelN("nodes", nodes)
	st.Case(sc.JSON(), nontrivial, sc, labels...)
	return nil
}

func opName2(op byte) string {
	switch op {
	case CALL:
		return "CALL"
	case CREATE:
		return "CREATE"
	case CREATE2:
		return "CREATE2"
	}
	return fmt.Sprintf("op%02x", op)
}

func genC07(t *rapid.T) *Scenario { return genTreeOrProg(t, 3) }
func genC08(t *rapid.T) *Scenario { return genTreeOrProg(t, 2) }

func TestC07(t *testing.T)       { runProp(t, "C07", genC07, checkC07) }
func TestC07Replay(t *testing.T) { replayProp(t, "C07", checkC07) }
func TestC08(t *testing.T)       { runProp(t, "C08", genC08, checkC08) }
func TestC08Replay(t *testing.T) { replayProp(t, "C08", checkC08) }

var _ = json.Marshal
