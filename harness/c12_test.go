package h

import (
	"encoding/json"
	"fmt"
	"math/big"
	"sort"
	"strings"
	"sync"
	"testing"

	"github.com/ethereum/go-ethereum/common"
	"github.com/holiman/uint256"
	"pgregory.net/rapid"
)

// ---- C12: journal instructions are invisible to execution and cost a flat fee ----

type c12Extra struct {
	Sites map[common.Address][]JSite `json:"sites,omitempty"`
	// malformed variant: position of the single journal instruction in contract 0
	Malformed *JSite `json:"malformed,omitempty"`
	Note      string `json:"note,omitempty"`
}

var (
	c12FeeOnce sync.Once
	c12Fee     = map[byte]uint64{} // fee per journal opcode measured by the reference probe
)

// c12RefFees executes every journal opcode once (well-formed operands, fork
// Frontier, top-level frame) and returns the fee each one charged.
func c12RefFees() map[byte]uint64 {
	c12FeeOnce.Do(func() {
		a := NewAsm()
		c := &codeGen{a: a}
		for _, k := range []*jFamKey{jTopValue[0], jTopRef[0], jNested[0], jNested[1], jNested[2], jNested[3]} {
			c.registerKey(k)
			c.journalChange(k)
		}
		a.Op(STOP)
		sc := &Scenario{Fork: "Frontier"}
		sc.Accounts = []Account{{Addr: ContractAddrs[0], Nonce: 1, Code: a.Bytes()}, {Addr: EOAAddr, Balance: hexU64(1 << 40), Nonce: 1}}
		sc.Invs = []Invocation{{Kind: "call", Origin: EOAAddr, Caller: EOAAddr, To: ContractAddrs[0], Gas: 1_000_000, JP: true}}
		r := RunArtela(sc, ArtelaOpts{Debug: true})
		for i := range r.Rec.Evs {
			e := &r.Rec.Evs[i]
			if e.K == EvStep && e.Op >= RSVJNAL && e.Op <= VRJNAL && e.Err == "" {
				c12Fee[e.Op] = e.Cost
			}
		}
	})
	return c12Fee
}

func replaceSites(sc *Scenario, sites map[common.Address][]JSite, repl func(code []byte, s JSite)) *Scenario {
	out := sc.Clone()
	for i := range out.Accounts {
		for _, s := range sites[out.Accounts[i].Addr] {
			repl(out.Accounts[i].Code, s)
		}
	}
	return out
}

// inSite reports whether a step of the given code address / pc belongs to a journal site.
func inSite(sites map[common.Address][]JSite, codeAddr common.Address, pc uint64) bool {
	for _, s := range sites[codeAddr] {
		if pc >= uint64(s.Pos) && pc < uint64(s.Pos+s.K) {
			return true
		}
	}
	return false
}

// visibleStream renders everything a contract can observe at every step outside
// the sites: pc, opcode, stack, memory, return data, depth, storage context - not gas.
func visibleStream(rec *Recorder, sites map[common.Address][]JSite) []string {
	var out []string
	for i := range rec.Evs {
		e := &rec.Evs[i]
		switch e.K {
		case EvStep, EvFault:
			if inSite(sites, e.CodeAddr, e.PC) {
				continue
			}
			var sb strings.Builder
			fmt.Fprintf(&sb, "%s d=%d pc=%d op=%02x mem=%d/%x rd=%x addr=%x err=%s st=", e.K, e.Depth, e.PC, e.Op, e.MemLen, e.MemHash, e.RData, e.Addr, e.Err)
			for j := range e.Stack {
				sb.WriteString(e.Stack[j].Hex())
				sb.WriteByte(',')
			}
			out = append(out, sb.String())
		case EvEnter, EvStart:
			out = append(out, fmt.Sprintf("%s %02x %x->%x in=%x val=%s", e.K, e.Typ, e.From, e.To, e.Input, bstr(e.Value)))
		case EvExit, EvEnd:
			out = append(out, fmt.Sprintf("%s out=%x err=%s", e.K, e.Output, e.Err))
		}
	}
	return out
}

func storageKeysSeen(recs ...*Recorder) []common.Hash {
	m := map[common.Hash]bool{}
	for _, r := range recs {
		for i := range r.Evs {
			e := &r.Evs[i]
			if e.K == EvStep && e.Op == SSTORE && len(e.Stack) >= 1 {
				m[common.Hash(e.Stack[len(e.Stack)-1].Bytes32())] = true
			}
		}
	}
	out := make([]common.Hash, 0, len(m))
	for k := range m {
		out = append(out, k)
	}
	sort.Slice(out, func(i, j int) bool { return string(out[i][:]) < string(out[j][:]) })
	return out
}

// worldView renders balances, nonces and the tracked storage of the universe (not code).
func worldView(r *ArtelaRun, addrs []common.Address, slots []common.Hash) string {
	var sb strings.Builder
	for _, a := range addrs {
		fmt.Fprintf(&sb, "%x b=%s n=%d", a, r.State.GetBalance(a), r.State.GetNonce(a))
		for _, s := range slots {
			if v := r.State.GetState(a, s); v != (common.Hash{}) {
				fmt.Fprintf(&sb, " %x=%x", s, v)
			}
		}
		sb.WriteByte('\n')
	}
	return sb.String()
}

func obsNoRoot(o *Obs, withGas bool) string {
	s := fmt.Sprintf("ret=%x err=%s created=%x suicided=%x logs=%v", o.Ret, o.ErrClass(), o.Created, o.Suicided, o.Logs)
	if withGas {
		s += fmt.Sprintf(" gas=%d", o.Gas)
	}
	return s
}

func checkC12(sc *Scenario, st *Stats) *Violation {
	var ex c12Extra
	if err := json.Unmarshal(sc.Extra, &ex); err != nil {
		return violf("harness/extra", "%v", err)
	}
	if ex.Malformed != nil {
		return checkC12Malformed(sc, &ex, st)
	}
	// P: journal instructions; P': operand pops in their place
	pop := replaceSites(sc, ex.Sites, func(code []byte, s JSite) {
		for i := 0; i < s.K; i++ {
			code[s.Pos+i] = POP
		}
	})
	rp := RunArtela(sc, ArtelaOpts{Debug: true})
	rq := RunArtela(pop, ArtelaOpts{Debug: true})
	for i := range rp.Obs {
		if rp.Obs[i].Panic != "" {
			return violf("panic", "the VM panicked: %.1200s", rp.Obs[i].Panic)
		}
	}
	// flat fee: a journal instruction that has its fee available does not run out of gas
	for i := range rp.Rec.Evs {
		e := &rp.Rec.Evs[i]
		if e.K == EvStep && e.Op >= RSVJNAL && e.Op <= VRJNAL && inSite(ex.Sites, e.CodeAddr, e.PC) && strings.Contains(e.Err, "out of gas") {
			if f, ok := c12RefFees()[e.Op]; ok && e.Gas >= f {
				return violf("fee/out-of-gas-with-fee-available", "journal instruction %02x at pc %d (fork %s, depth %d) ran out of gas with %d gas left; its fee is %d", e.Op, e.PC, sc.Fork, e.Depth, e.Gas, f)
			}
			st.Label("journal-op-out-of-gas-below-fee")
		}
	}
	// gas must not be observable: discard runs in which some frame ran out of gas
	for _, r := range []*ArtelaRun{rp, rq} {
		for i := range r.Rec.Evs {
			e := &r.Rec.Evs[i]
			if strings.Contains(e.Err, "out of gas") || strings.Contains(e.Err, "gas uint64 overflow") {
				st.Exclude("gas-observable(out-of-gas)")
				return nil
			}
		}
	}
	// fee: one non-zero constant per journal opcode; count executed sites
	executed, inNested, inStatic := 0, false, false
	fl, _ := BuildFrames(rp.Rec.Evs)
	var feeSum uint64
	var popGain uint64
	for i := range rp.Rec.Evs {
		e := &rp.Rec.Evs[i]
		if e.K != EvStep || !(e.Op >= RSVJNAL && e.Op <= VRJNAL) || !inSite(ex.Sites, e.CodeAddr, e.PC) {
			continue
		}
		if e.Err != "" || (i+1 < len(rp.Rec.Evs) && rp.Rec.Evs[i+1].K == EvFault && rp.Rec.Evs[i+1].PC == e.PC && rp.Rec.Evs[i+1].Depth == e.Depth) {
			return violf("wellformed-failed", "well-formed journal instruction %02x at pc %d (code %x, context %x, fork %s) failed: %s", e.Op, e.PC, e.CodeAddr, e.Addr, sc.Fork, e.Err+rp.Rec.Evs[i+1].Err)
		}
		if e.Cost == 0 {
			return violf("fee/zero", "journal instruction %02x charged no gas", e.Op)
		}
		// one constant per opcode: compare with the fee measured by a fixed reference
		// probe (all eight opcodes, Frontier, top-level frame) - reproducible on replay
		if f, ok := c12RefFees()[e.Op]; ok && f != e.Cost {
			return violf("fee/not-constant", "journal instruction %02x charged %d here (fork %s, depth %d, static %v), %d in the reference probe", e.Op, e.Cost, sc.Fork, e.Depth, fl != nil && fl.Owner[i] != nil && fl.Owner[i].Static, f)
		}
		executed++
		feeSum += e.Cost
		for _, s := range ex.Sites[e.CodeAddr] {
			if uint64(s.Pos) == e.PC {
				popGain += uint64(2*s.K) - uint64(s.K-1) // k POPs (2 gas) versus k-1 JUMPDESTs (1 gas)
			}
		}
		if e.Depth > 1 {
			inNested = true
		}
		if fl != nil && fl.Owner[i] != nil && fl.Owner[i].Static {
			inStatic = true
		}
		st.Label(fmt.Sprintf("jop:%02x", e.Op))
	}
	// everything a contract can observe is identical
	for i := range rp.Obs {
		if a, b := obsNoRoot(&rp.Obs[i], false), obsNoRoot(&rq.Obs[i], false); a != b {
			return violf("outcome", "invocation %d: outcome with journal instructions differs from the outcome with pops\n journal: %s\n pops:    %s", i, a, b)
		}
	}
	vp, vq := visibleStream(rp.Rec, ex.Sites), visibleStream(rq.Rec, ex.Sites)
	if len(vp) != len(vq) {
		return violf("stream", "execution with journal instructions has %d visible steps, with pops %d", len(vp), len(vq))
	}
	for i := range vp {
		if vp[i] != vq[i] {
			return violf("stream", "visible state differs at step %d\n journal: %.600s\n pops:    %.600s", i, vp[i], vq[i])
		}
	}
	addrs := c04Universe(sc, fl)
	slots := storageKeysSeen(rp.Rec, rq.Rec)
	if a, b := worldView(rp, addrs, slots), worldView(rq, addrs, slots); a != b {
		return violf("world-state", "world state differs\n journal:\n%s pops:\n%s", a, b)
	}
	// gas: only the fee (minus what the pops cost) - when no frame forfeits gas
	forfeit := false
	for i := range rp.Rec.Evs {
		e := &rp.Rec.Evs[i]
		if (e.K == EvExit || e.K == EvEnd) && e.Err != "" && e.Err != "execution reverted" {
			forfeit = true
		}
	}
	if !forfeit && fl != nil {
		var a, b uint64
		for i := range rp.Obs {
			a += rp.Obs[i].Gas
			b += rq.Obs[i].Gas
		}
		// P pays fee + (k-1) per site, P' pays 2k per site
		if b+popGain != a+feeSum {
			// refused creates / collisions forfeit gas without a frame error; tolerate only if such an attempt exists
			att := BuildAttempts(sc, rp.Rec.Evs, fl, rp.Obs)
			refused := false
			for _, x := range att {
				if x.Failed && x.Frame == nil {
					refused = true
				}
			}
			if !refused {
				return violf("gas-difference", "leftover gas %d (journal) vs %d (pops): difference is not the sum of the fees %d minus the pop costs %d of the %d executed journal instructions", a, b, feeSum, popGain, executed)
			}
		} else {
			st.Label("gas-equation-checked")
		}
	}
	nontrivial := executed > 0 && (inNested || inStatic)
	labels := []string{"fork:" + sc.Fork}
	if inNested {
		labels = append(labels, "site-in-nested-frame")
	}
	if inStatic {
		labels = append(labels, "site-in-static-frame")
	}
	st.LabelN("journal-instructions-executed", executed)
	st.Case(sc.JSON(), nontrivial, sc, labels...)
	return nil
}

// malformed operands: the instruction must halt the frame exactly like INVALID.
func checkC12Malformed(sc *Scenario, ex *c12Extra, st *Stats) *Violation {
	site := *ex.Malformed
	sites := map[common.Address][]JSite{ContractAddrs[0]: {site}}
	inv := replaceSites(sc, sites, func(code []byte, s JSite) { code[s.Pos] = INVALID })
	rp := RunArtela(sc, ArtelaOpts{Debug: true})
	rq := RunArtela(inv, ArtelaOpts{Debug: true})
	for i := range rp.Obs {
		if rp.Obs[i].Panic != "" {
			return violf("panic", "malformed %s: the VM panicked: %.1200s", ex.Note, rp.Obs[i].Panic)
		}
	}
	// the journal instruction must have been reached and must have failed
	reached := false
	for i := range rp.Rec.Evs {
		e := &rp.Rec.Evs[i]
		if (e.K == EvStep || e.K == EvFault) && e.CodeAddr == ContractAddrs[0] && e.PC == uint64(site.Pos) {
			reached = true
		}
	}
	if !reached {
		st.Exclude("malformed-site-not-reached")
		return nil
	}
	for i := range rp.Obs {
		a, b := obsNoRoot(&rp.Obs[i], true), obsNoRoot(&rq.Obs[i], true)
		// the error class differs by construction (invalid opcode vs the instruction's own error): compare success only
		a = strings.Replace(a, "err="+rp.Obs[i].ErrClass(), fmt.Sprintf("failed=%v", rp.Obs[i].Err != ""), 1)
		b = strings.Replace(b, "err="+rq.Obs[i].ErrClass(), fmt.Sprintf("failed=%v", rq.Obs[i].Err != ""), 1)
		if a != b {
			return violf("malformed/outcome", "malformed %s: outcome differs from the same program with INVALID in place of the journal instruction\n journal: %s\n invalid: %s", ex.Note, a, b)
		}
	}
	fl, _ := BuildFrames(rp.Rec.Evs)
	addrs := c04Universe(sc, fl)
	slots := storageKeysSeen(rp.Rec, rq.Rec)
	slots = append(slots, common.BigToHash(big.NewInt(c09Marker)))
	if a, b := worldView(rp, addrs, slots), worldView(rq, addrs, slots); a != b {
		return violf("malformed/world-state", "malformed %s: world state differs from the INVALID variant\n journal:\n%s invalid:\n%s", ex.Note, a, b)
	}
	// nothing was journaled by the malformed instruction: the frame that ran it failed
	st.Case(sc.JSON(), true, sc, "malformed", "malformed:"+ex.Note, "fork:"+sc.Fork)
	return nil
}

func genC12(t *rapid.T) *Scenario {
	if chance(t, 25, "malformed") {
		return genC12Malformed(t)
	}
	sc, sites := GenProgScenarioSites(t, ProgCfg{Sites: true, Hermetic: true, NoArtelaPre: true, Fork: ForkNames[uniform(t, 0, 12, "fork")], Extra: []int{}, MaxSnips: 10})
	for i := range sc.Accounts {
		if len(sc.Accounts[i].Code) == 0 {
			continue
		}
		if sc.Accounts[i].Storage == nil {
			sc.Accounts[i].Storage = map[common.Hash]common.Hash{}
		}
		for k, v := range journalPrestate(func(n int) int { return uniform(t, 0, n-1, "jpre") }) {
			sc.Accounts[i].Storage[k] = v
		}
	}
	// a driver contract (no journal sites) runs every generated contract through
	// CALL, STATICCALL and DELEGATECALL so that sites execute in nested and static frames
	driver := ContractAddrs[5]
	d := NewAsm()
	ncontracts := 0
	// one case in seven drives the contracts with so little gas that journal
	// instructions are reached with about their fee left (flat-fee clause; such
	// runs make gas observable and do not take part in the comparison with pops)
	lowGas := chance(t, 15, "lowgas")
	for _, acc := range sc.Accounts {
		if len(acc.Code) == 0 || acc.Addr[0] != 0xc0 {
			continue
		}
		ncontracts++
		for _, kind := range []byte{CALL, STATICCALL, DELEGATECALL} {
			if (kind == STATICCALL && forkIndex(sc.Fork) < 4) || (kind == DELEGATECALL && forkIndex(sc.Fork) < 1) {
				continue
			}
			if !chance(t, 60, "drive") {
				continue
			}
			d.Push(0x20).Push(0).Push(0).Push(0)
			if kind == CALL {
				d.Push(0)
			}
			// mostly ample gas; sometimes so little that a journal instruction is reached
			// with about its fee left (the stipend, a bit more, a bit less)
			dg := 120000
			if lowGas {
				dg = pickInt(t, "drivegas", 120000, 5000, 2500, 2300, 1500, 1000, 900)
			}
			d.Push(acc.Addr[:]).Push(uint64(dg)).Op(kind)
			d.Push(uint64(0x60 + ncontracts*4 + int(kind&3))).Op(SSTORE)
		}
	}
	d.Op(STOP)
	dst := journalPrestate(func(n int) int { return uniform(t, 0, n-1, "jpred") })
	sc.Accounts = append(sc.Accounts, Account{Addr: driver, Nonce: 1, Code: d.Bytes(), Storage: dst, Balance: hexU64(1000)})
	for i := range sc.Invs {
		sc.Invs[i].Gas = 1_500_000
		if sc.Invs[i].Kind == "create" || sc.Invs[i].Kind == "create2" {
			sc.Invs[i].Kind = "call"
			sc.Invs[i].To = ContractAddrs[0]
			sc.Invs[i].Input = nil
		}
		if lowGas || chance(t, 50, "viadriver") {
			sc.Invs[i].Kind = "call"
			sc.Invs[i].To = driver
		}
	}
	ex := c12Extra{Sites: sites}
	sc.Extra, _ = json.Marshal(ex)
	return sc
}

// genC12Malformed: one journal instruction with operands that are not well formed.
func genC12Malformed(t *rapid.T) *Scenario {
	a := NewAsm()
	c := &codeGen{a: a}
	note := ""
	var site JSite
	emit := func(op byte, k int) {
		site = JSite{Pos: a.Len(), K: 1, Op: op}
		a.Op(op)
	}
	big64 := new(uint256.Int).Lsh(uint256.NewInt(1), 64)
	storagePre := map[common.Hash]common.Hash{}
	k0 := uniform(t, 0, 19, "malk")
	if k0 >= 10 {
		note = c12MutatedOperand(t, c, emit, storagePre)
	}
	switch k0 {
	case 9:
		note = "VVJNAL unregistered key, zero size"
		a.Push(7).Push(0).Push(pickU64(t, "maloff0", 0, 8, 31)).Push(5)
		emit(VVJNAL, 4)
	case 0:
		note = "VVJNAL unregistered key"
		a.Push(7).Push(32).Push(0).Push(5)
		emit(VVJNAL, 4)
	case 1:
		note = "VVJNAL offset out of range"
		c.memString("v")
		a.Push(7).Push(0).Push(5).Push(jMemName).Op(VSVJNAL)
		a.Push(7).Push(4).Push(pickU64(t, "maloff", 32, 40, 255)).Push(5)
		emit(VVJNAL, 4)
	case 2:
		note = "VVJNAL size out of range"
		c.memString("v")
		a.Push(7).Push(0).Push(5).Push(jMemName).Op(VSVJNAL)
		a.Push(7).Push(big64).Push(0).Push(5)
		emit(VVJNAL, 4)
	case 3:
		note = "VVJNAL offset+size beyond the word"
		c.memString("v")
		a.Push(7).Push(8).Push(5).Push(jMemName).Op(VSVJNAL)
		a.Push(7).Push(30).Push(8).Push(5)
		emit(VVJNAL, 4)
	case 4:
		note = "VSVJNAL offset out of range"
		c.memString("v")
		a.Push(7).Push(pickU64(t, "maloff2", 32, 33, 1<<40)).Push(5).Push(jMemName)
		emit(VSVJNAL, 4)
	case 5:
		note = "VRJNAL invalid string encoding"
		c.memString("s")
		a.Push(0x5000).Push(0x1000).Push(jMemName).Op(RSVJNAL)
		a.Push(0x5000).Push(0x1000)
		emit(VRJNAL, 2)
	case 6:
		note = "IVVVJNAL unknown parent"
		a.Push(9).Push(8).Push(0).Push(1).Push(0x2000).Push(77)
		emit(IVVVJNAL, 6)
	case 7:
		note = "stack underflow"
		a.Push(1)
		op := byte(RSVJNAL + uniform(t, 0, 7, "malop"))
		emit(op, 1)
	case 8:
		note = "VRJNAL unregistered key"
		a.Push(0x5001).Push(0x1001)
		emit(VRJNAL, 2)
	}
	a.Push(1).Push(c09Marker).Op(SSTORE).Op(STOP)
	target := ContractAddrs[0]
	st := storagePre
	if note == "VRJNAL invalid string encoding" {
		// short form with a length field >= 32
		var w common.Hash
		w[31] = 0x80
		st[common.BigToHash(big.NewInt(0x1000))] = w
	}
	sc := &Scenario{Fork: ForkNames[uniform(t, 0, 12, "fork")]}
	sc.Accounts = []Account{{Addr: target, Nonce: 1, Code: a.Bytes(), Storage: st, Balance: hexU64(10)}, {Addr: EOAAddr, Balance: hexU64(1 << 40), Nonce: 1}}
	inv := Invocation{Kind: "call", Origin: EOAAddr, Caller: EOAAddr, To: target, Gas: 500_000, JP: rapid.Bool().Draw(t, "jp"), Value: hexU64(uint64(uniform(t, 0, 1, "malval")))}
	if chance(t, 40, "malnested") {
		// reach the target through a caller that records the result
		proxy := ContractAddrs[1]
		p := NewAsm()
		kind := []byte{CALL, STATICCALL, DELEGATECALL}[uniform(t, 0, 2, "malkind")]
		if forkIndex(sc.Fork) < 4 && kind == STATICCALL {
			kind = CALL
		}
		if forkIndex(sc.Fork) < 1 && kind == DELEGATECALL {
			kind = CALL
		}
		p.Push(0).Push(0).Push(0).Push(0)
		if kind == CALL {
			p.Push(0)
		}
		p.Push(target[:]).Push(100000).Op(kind)
		p.Push(0x41).Op(SSTORE).Op(STOP)
		// under DELEGATECALL the storage context is the proxy's: same prepared storage
		sc.Accounts = append(sc.Accounts, Account{Addr: proxy, Nonce: 1, Code: p.Bytes(), Storage: st})
		inv.To = proxy
		inv.Value = nil
	}
	sc.Invs = []Invocation{inv}
	ex := c12Extra{Malformed: &site, Note: note}
	sc.Extra, _ = json.Marshal(ex)
	return sc
}

// c12MutatedOperand: a WELL-FORMED operand set of one journal instruction (key of
// the family, parents registered, the key itself registered when the instruction
// journals a change) with exactly ONE operand replaced by a malformed value of
// its role: memory pointers beyond memory, also with a valid low part under dirty
// high limbs; offsets / sizes outside the word, also aliasing a valid value when
// narrowed to 8 or 64 bits; unknown parent / unregistered location for the ids.
func c12MutatedOperand(t *rapid.T, c *codeGen, emit func(op byte, k int), storage map[common.Hash]common.Hash) string {
	a := c.a
	for k, v := range journalPrestate(func(n int) int { return uniform(t, 0, n-1, "mpre") }) {
		storage[k] = v
	}
	type operand struct {
		role string
		v    *uint256.Int
	}
	u := func(x uint64) *uint256.Int { return uint256.NewInt(x) }
	var k *jFamKey
	switch uniform(t, 0, 3, "mfam") {
	case 0:
		k = jTopValue[uniform(t, 0, len(jTopValue)-1, "mtv")]
	case 1:
		k = jTopRef[uniform(t, 0, len(jTopRef)-1, "mtr")]
	default:
		k = jNested[uniform(t, 0, len(jNested)-1, "mn")]
	}
	change := chance(t, 40, "mchange")
	var op byte
	var ops []operand // in push order (last = top of stack)
	if change {
		c.registerKey(k)
		if k.Ref {
			op, ops = VRJNAL, []operand{{"type", u(k.TypeID)}, {"slot", u(k.Slot)}}
		} else {
			op, ops = VVJNAL, []operand{{"type", u(k.TypeID)}, {"size", u(k.Size)}, {"offset", u(k.Offset)}, {"slot", u(k.Slot)}}
		}
	} else if k.Parent == nil {
		c.memString(k.Name)
		if k.Ref {
			op, ops = RSVJNAL, []operand{{"newtype", u(k.TypeID)}, {"newslot", u(k.Slot)}, {"ptr", u(jMemName)}}
		} else {
			op, ops = VSVJNAL, []operand{{"newtype", u(k.TypeID)}, {"offset", u(k.Offset)}, {"newslot", u(k.Slot)}, {"ptr", u(jMemName)}}
		}
	} else {
		c.registerKey(k.Parent)
		pp := k.Parent
		switch {
		case !k.Ref && !k.IndexRef:
			op, ops = IVVVJNAL, []operand{{"ptype", u(pp.TypeID)}, {"newtype", u(k.TypeID)}, {"offset", u(k.Offset)}, {"index", u(k.IndexVal)}, {"newslot", u(k.Slot)}, {"pslot", u(pp.Slot)}}
		case !k.Ref && k.IndexRef:
			c.memString(k.IndexStr)
			op, ops = IRVVJNAL, []operand{{"ptype", u(pp.TypeID)}, {"newtype", u(k.TypeID)}, {"offset", u(k.Offset)}, {"ptr", u(jMemName)}, {"newslot", u(k.Slot)}, {"pslot", u(pp.Slot)}}
		case k.Ref && !k.IndexRef:
			op, ops = IVVRJNAL, []operand{{"ptype", u(pp.TypeID)}, {"newtype", u(k.TypeID)}, {"index", u(k.IndexVal)}, {"newslot", u(k.Slot)}, {"pslot", u(pp.Slot)}}
		default:
			c.memString(k.IndexStr)
			op, ops = IRVRJNAL, []operand{{"ptype", u(pp.TypeID)}, {"newtype", u(k.TypeID)}, {"ptr", u(jMemName)}, {"newslot", u(k.Slot)}, {"pslot", u(pp.Slot)}}
		}
	}
	// operands that can be made malformed
	var cand []int
	for i, o := range ops {
		switch o.role {
		case "ptr", "offset", "size", "ptype", "pslot", "type", "slot":
			cand = append(cand, i)
		}
	}
	i := cand[uniform(t, 0, len(cand)-1, "mwhich")]
	o := &ops[i]
	hi := func(v *uint256.Int, bit uint) *uint256.Int {
		return new(uint256.Int).Or(new(uint256.Int).Lsh(u(1), bit), v)
	}
	desc := ""
	switch o.role {
	case "ptr":
		switch uniform(t, 0, 7, "mptr") {
		case 0:
			o.v, desc = hi(o.v, 64), "pointer 2^64 + valid"
		case 1:
			o.v, desc = hi(o.v, 128), "pointer 2^128 + valid"
		case 2:
			o.v, desc = hi(o.v, 255), "pointer 2^255 + valid"
		case 3:
			o.v, desc = new(uint256.Int).Add(new(uint256.Int).Lsh(u(3), 64), o.v), "pointer 3*2^64 + valid"
		case 4:
			o.v, desc = u(jMemName+0x40), "pointer = memory size"
		case 5:
			o.v, desc = u(jMemName+0x40-31), "pointer: length word straddles the end of memory"
		case 6:
			o.v, desc = new(uint256.Int).Not(u(0)), "pointer 2^256-1"
		default:
			// valid pointer, length word larger than the memory behind it
			a.Push(pickU64(t, "mlen", 33, 1<<20, 1<<32, 1<<63, ^uint64(0))).Push(jMemName).Op(MSTORE)
			desc = "length word beyond memory"
		}
	case "offset":
		switch uniform(t, 0, 5, "moff") {
		case 0:
			o.v, desc = u(32), "offset 32"
		case 1:
			o.v, desc = u(256+o.v.Uint64()), "offset 256 + valid"
		case 2:
			o.v, desc = hi(o.v, 64), "offset 2^64 + valid"
		case 3:
			o.v, desc = hi(o.v, 255), "offset 2^255 + valid"
		case 4:
			o.v, desc = u(255), "offset 255"
		default:
			o.v, desc = u(33), "offset 33"
		}
	case "size":
		switch uniform(t, 0, 4, "msize") {
		case 0:
			o.v, desc = u(33), "size 33"
		case 1:
			o.v, desc = hi(o.v, 64), "size 2^64 + valid"
		case 2:
			o.v, desc = hi(o.v, 128), "size 2^128 + valid"
		case 3:
			o.v, desc = u(256+o.v.Uint64()), "size 256 + valid"
		default:
			o.v, desc = new(uint256.Int).Not(u(0)), "size 2^256-1"
		}
	case "ptype":
		o.v, desc = u(0x7777), "unknown parent type"
	case "pslot":
		o.v, desc = u(0x7778), "unknown parent slot"
	case "type":
		o.v, desc = u(0x7779), "type of no registered key"
	case "slot":
		o.v, desc = u(0x777a), "slot of no registered key"
	}
	for _, o := range ops {
		a.Push(o.v)
	}
	emit(op, len(ops))
	return fmt.Sprintf("%s with %s: %s", jopName(op), o.role, desc)
}

func jopName(op byte) string {
	return map[byte]string{RSVJNAL: "RSVJNAL", VSVJNAL: "VSVJNAL", IRVVJNAL: "IRVVJNAL", IRVRJNAL: "IRVRJNAL", IVVVJNAL: "IVVVJNAL", IVVRJNAL: "IVVRJNAL", VVJNAL: "VVJNAL", VRJNAL: "VRJNAL"}[op]
}

func TestC12(t *testing.T)       { runProp(t, "C12", genC12, checkC12) }
func TestC12Replay(t *testing.T) { replayProp(t, "C12", checkC12) }
