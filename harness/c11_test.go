package h

import (
	"bytes"
	"encoding/json"
	"fmt"
	"sort"
	"strings"
	"testing"

	avm "github.com/artela-network/artela-evm/vm"
	"github.com/ethereum/go-ethereum/common"
	"github.com/holiman/uint256"
	"pgregory.net/rapid"
)

// ---- C11: key tree - lookups by path and by slot agree ---------------------------

// apiOp is one operation of a history over the exported Tracer API.
type apiOp struct {
	K          string `json:"k"` // regtop, regnested, change, enter, exit
	Acct       int    `json:"acct"`
	Slot       int    `json:"slot"`                 // index into c11Slots
	Offset     int    `json:"offset"`               // index into c11Offsets (0 = nil pointer)
	Type       int    `json:"type"`                 // index into c11Types
	Name       int    `json:"name,omitempty"`       // index into c11Names (regtop) / c11Index (regnested)
	ParentSlot int    `json:"parentSlot,omitempty"` // regnested
	ParentType int    `json:"parentType,omitempty"`
	Val        int    `json:"val,omitempty"`
}

type apiCase struct {
	Ops []apiOp `json:"ops"`
}

var (
	c11Accts   = []common.Address{addrN(0xa1, 1), addrN(0xa1, 2)}
	c11Slots   = []*uint256.Int{uint256.NewInt(0), uint256.NewInt(1), uint256.NewInt(2), uint256.MustFromHex("0x290decd9548b62a8d60345a988386fc84ba6bc95484008f6362f93160ef3e563"), uint256.MustFromHex("0xb10e2d527612073b26eecdfd717e6a320cf44b4afac2b0732d9fcbe2b7fa0cf6")}
	c11Offsets = []*uint256.Int{nil, uint256.NewInt(0), uint256.NewInt(1), uint256.NewInt(16), uint256.NewInt(31), uint256.NewInt(32), uint256.NewInt(255), new(uint256.Int).Lsh(uint256.NewInt(1), 64),
		// out-of-range offsets that ALIAS a valid one when narrowed to 8 or 64 bits (indices 8..14)
		uint256.NewInt(256), uint256.NewInt(257), uint256.NewInt(272), uint256.NewInt(287),
		new(uint256.Int).AddUint64(new(uint256.Int).Lsh(uint256.NewInt(1), 64), 1), new(uint256.Int).AddUint64(new(uint256.Int).Lsh(uint256.NewInt(1), 64), 16),
		new(uint256.Int).AddUint64(new(uint256.Int).Lsh(uint256.NewInt(1), 128), 31)}
	c11Types = []common.Hash{common.HexToHash("0x01"), common.HexToHash("0x02"), common.HexToHash("0x03")}
	c11Names = []string{"", "a", "b", "c"}
	c11Index = [][]byte{{1}, {2}, bytes.Repeat([]byte{3}, 32), []byte("key"), {}, {0}} // incl. the empty key (m[""]) and a zero byte
	c11Vals  = [][]byte{{}, {1}, {2}, {1, 2, 3}}
)

type c11Loc struct {
	acct   int
	slot   int
	off    uint8
	typeID int
}

type c11Key struct {
	loc  c11Loc
	path []string // path[0] = state variable name, then index keys
	op   apiOp
}

// pathStr is injective: every element quoted (index keys may be empty or contain any byte).
func pathStr(acct int, p []string) string { return fmt.Sprintf("%d/%q", acct, p) }

func offVal(i int) (uint8, bool) { // value, valid
	o := c11Offsets[i]
	if o == nil {
		return 0, true
	}
	if !o.IsUint64() || o.Uint64() > 31 {
		return 0, false
	}
	return uint8(o.Uint64()), true
}

func pathBytes(p []string) (string, [][]byte) {
	var idx [][]byte
	for _, s := range p[1:] {
		idx = append(idx, []byte(s))
	}
	return p[0], idx
}

func dumpChanges(c *avm.StorageChanges) string {
	if c == nil {
		return "nil"
	}
	m := c.Changes()
	ks := make([]uint64, 0, len(m))
	for k := range m {
		ks = append(ks, k)
	}
	sort.Slice(ks, func(i, j int) bool { return ks[i] < ks[j] })
	var sb strings.Builder
	for _, k := range ks {
		fmt.Fprintf(&sb, "%d:%x;", k, m[k])
	}
	return sb.String()
}

func sortedIdx(b [][]byte) []string {
	out := make([]string, 0, len(b))
	for _, x := range b {
		out = append(out, string(x))
	}
	sort.Strings(out)
	return out
}

// c11Snapshot renders every query result over the universe (content, order-free).
func c11Snapshot(tr *avm.Tracer) map[string]string {
	st := tr.StateChanges()
	out := map[string]string{}
	for ai, a := range c11Accts {
		for si, s := range c11Slots {
			for oi := range c11Offsets {
				for ti, ty := range c11Types {
					ch, err := st.Slot(a, s, c11Offsets[oi], ty)
					out[fmt.Sprintf("slot/%d/%d/%d/%d", ai, si, oi, ti)] = fmt.Sprintf("%s|%v", dumpChanges(ch), err != nil)
				}
			}
		}
		var walk func(path []string, depth int)
		walk = func(path []string, depth int) {
			name, idx := pathBytes(path)
			k := st.FindKeyIndices(a, name, idx...)
			key := fmt.Sprintf("path/%d/%q", ai, path)
			if k == nil {
				out[key] = "absent"
				return
			}
			out[key] = fmt.Sprintf("slot=%v off=%d changes=%s var=%s children=%q ioc=%q n=%d", k.Slot(), k.Offset(), dumpChanges(k.Changes()), dumpChanges(st.Variable(a, name, idx...)),
				sortedIdx(k.ChildrenIndices()), sortedIdx(st.IndicesOfChanges(a, name, idx...)), len(k.Children()))
			if depth < 2 {
				for _, ix := range c11Index {
					walk(append(append([]string{}, path...), string(ix)), depth+1)
				}
			}
		}
		for _, n := range c11Names {
			walk([]string{n}, 0)
		}
		out[fmt.Sprintf("balance/%d", ai)] = dumpChanges(st.Balance(a))
	}
	out["current"] = fmt.Sprint(tr.CurrentCallIndex())
	return out
}

func snapDiff(a, b map[string]string) []string {
	var d []string
	for k, v := range a {
		if b[k] != v {
			d = append(d, k)
		}
	}
	for k := range b {
		if _, ok := a[k]; !ok {
			d = append(d, k)
		}
	}
	sort.Strings(d)
	return d
}

func checkC11(c apiCase, st *Stats) *Violation {
	tr := avm.NewTracer()
	var accepted []c11Key
	byLoc := map[c11Loc][]int{}  // indices into accepted
	byPath := map[string][]int{} // pathStr -> indices
	var callStack []uint64
	var count uint64
	curIdx := func() uint64 {
		if len(callStack) == 0 {
			return 0
		}
		return callStack[len(callStack)-1]
	}
	sharedSlotChanged := map[string]bool{} // "acct/slot" -> a change was accepted for a key in it
	conflictAccepted := false

	invariants := func(step int) *Violation {
		states := tr.StateChanges()
		for _, k := range accepted {
			a := c11Accts[k.loc.acct]
			name, idx := pathBytes(k.path)
			node := states.FindKeyIndices(a, name, idx...)
			if node == nil {
				return violf("I1/path-lost", "step %d: accepted key %v at %+v cannot be found by its path", step, k.path, k.loc)
			}
			v := states.Variable(a, name, idx...)
			s, err := states.Slot(a, c11Slots[k.loc.slot], c11Offsets[k.op.Offset], c11Types[k.loc.typeID])
			if err != nil {
				return violf("I1/slot-error", "step %d: Slot lookup of accepted key %v fails: %v", step, k.path, err)
			}
			if v != s {
				return violf("I1/views-differ", "step %d: accepted key path=%q loc=%+v: lookup by path reaches %s, lookup by (slot, offset, type) reaches %s", step, k.path, k.loc, dumpChanges(v), dumpChanges(s))
			}
		}
		// I5: children indices of every accepted node = indices accepted under it
		for _, k := range accepted {
			a := c11Accts[k.loc.acct]
			name, idx := pathBytes(k.path)
			node := states.FindKeyIndices(a, name, idx...)
			want := map[string]bool{}
			for _, k2 := range accepted {
				if k2.loc.acct == k.loc.acct && len(k2.path) == len(k.path)+1 && pathStr(0, k2.path[:len(k.path)]) == pathStr(0, k.path) {
					want[k2.path[len(k2.path)-1]] = true
				}
			}
			got := sortedIdx(node.ChildrenIndices())
			got2 := sortedIdx(states.IndicesOfChanges(a, name, idx...))
			var w []string
			for x := range want {
				w = append(w, x)
			}
			sort.Strings(w)
			if fmt.Sprintf("%q", got) != fmt.Sprintf("%q", w) || fmt.Sprintf("%q", got2) != fmt.Sprintf("%q", w) || len(node.Children()) != len(w) {
				return violf("I5/children", "step %d: node %q reports children %q / %q (n=%d), registered under it: %q", step, k.path, got, got2, len(node.Children()), w)
			}
		}
		return nil
	}

	for step, op := range c.Ops {
		before := c11Snapshot(tr)
		a := c11Accts[op.Acct%len(c11Accts)]
		switch op.K {
		case "enter":
			to := c11Accts[0]
			tr.SaveCall(c11Accts[1], &to, []byte{1}, uint256.NewInt(0), uint256.NewInt(100))
			callStack = append(callStack, count)
			count++
			if tr.CurrentCallIndex() != curIdx() {
				return violf("call-index", "step %d: CurrentCallIndex %d, model %d", step, tr.CurrentCallIndex(), curIdx())
			}
			continue
		case "exit":
			tr.ExitCall(0, nil, nil)
			if len(callStack) > 0 {
				callStack = callStack[:len(callStack)-1]
			}
			if tr.CurrentCallIndex() != curIdx() {
				return violf("call-index", "step %d: CurrentCallIndex %d, model %d", step, tr.CurrentCallIndex(), curIdx())
			}
			continue
		case "regtop", "regnested":
			off8, offOK := offVal(op.Offset)
			loc := c11Loc{op.Acct, op.Slot, off8, op.Type}
			var path []string
			parentOK := true
			var err error
			if op.K == "regtop" {
				path = []string{c11Names[op.Name]}
				err = tr.SaveStateKey(a, nil, c11Slots[op.Slot], c11Offsets[op.Offset], c11Types[op.Type], common.Hash{}, []byte(c11Names[op.Name]))
			} else {
				ploc := c11Loc{op.Acct, op.ParentSlot, 0, op.ParentType}
				if ks := byLoc[ploc]; len(ks) > 0 {
					path = append(append([]string{}, accepted[ks[0]].path...), string(c11Index[op.Name]))
				} else {
					parentOK = false
				}
				err = tr.SaveStateKey(a, c11Slots[op.ParentSlot], c11Slots[op.Slot], c11Offsets[op.Offset], c11Types[op.Type], c11Types[op.ParentType], c11Index[op.Name])
			}
			after := c11Snapshot(tr)
			if !offOK || !parentOK {
				if err == nil {
					return violf("I3/accepted-invalid", "step %d: registration with %s was accepted", step, map[bool]string{true: "an unknown parent", false: "an out-of-range offset"}[offOK])
				}
				if d := snapDiff(before, after); len(d) > 0 {
					return violf("I3/refused-but-modified", "step %d: refused registration changed query results %q", step, d)
				}
				continue
			}
			ps := pathStr(op.Acct, path)
			samePathSameLoc := false
			for _, i := range byPath[ps] {
				if accepted[i].loc == loc {
					samePathSameLoc = true
				}
			}
			fresh := len(byPath[ps]) == 0 && len(byLoc[loc]) == 0
			if samePathSameLoc {
				// I4: idempotent
				if err != nil {
					return violf("I4/refused", "step %d: repeating an accepted registration fails: %v", step, err)
				}
				if d := snapDiff(before, after); len(d) > 0 {
					return violf("I4/modified", "step %d: repeating an accepted registration changed query results %q", step, d)
				}
				continue
			}
			if fresh && err != nil {
				return violf("fresh-refused", "step %d: a valid registration of a new path at a new location is refused: %v", step, err)
			}
			if err != nil {
				// a conflicting registration may be refused - but then nothing may change
				if d := snapDiff(before, after); len(d) > 0 {
					return violf("I3/refused-but-modified", "step %d: refused registration changed query results %q", step, d)
				}
				continue
			}
			if !fresh {
				conflictAccepted = true
			}
			accepted = append(accepted, c11Key{loc: loc, path: path, op: op})
			byLoc[loc] = append(byLoc[loc], len(accepted)-1)
			byPath[ps] = append(byPath[ps], len(accepted)-1)
		case "change":
			off8, offOK := offVal(op.Offset)
			loc := c11Loc{op.Acct, op.Slot, off8, op.Type}
			val := c11Vals[op.Val%len(c11Vals)]
			err := tr.SaveStateChange(a, c11Slots[op.Slot], c11Offsets[op.Offset], c11Types[op.Type], val)
			after := c11Snapshot(tr)
			registered := offOK && len(byLoc[loc]) > 0
			if !registered {
				if err == nil {
					return violf("I3/change-accepted", "step %d: a change for an unregistered key / invalid offset was accepted", step)
				}
				if d := snapDiff(before, after); len(d) > 0 {
					return violf("I3/refused-but-modified", "step %d: refused change modified query results %q", step, d)
				}
				continue
			}
			if err != nil {
				return violf("I2/change-refused", "step %d: change for the registered key path=%q loc=%+v is refused: %v", step, accepted[byLoc[loc][0]].path, loc, err)
			}
			for _, i := range byLoc[loc] {
				k := accepted[i]
				name, idx := pathBytes(k.path)
				for view, ch := range map[string]*avm.StorageChanges{"path": tr.StateChanges().Variable(a, name, idx...), "slot": func() *avm.StorageChanges {
					c, _ := tr.StateChanges().Slot(a, c11Slots[op.Slot], c11Offsets[op.Offset], c11Types[op.Type])
					return c
				}()} {
					if ch == nil {
						return violf("I2/not-visible", "step %d: accepted change not visible through the %s view of %q", step, view, k.path)
					}
					l := ch.Changes()[curIdx()]
					if len(l) == 0 || !bytes.Equal(l[len(l)-1], val) {
						return violf("I2/not-visible", "step %d: the %s view of %q under call %d ends with %x, journaled %x", step, view, k.path, curIdx(), l, val)
					}
				}
			}
			sharedSlotChanged[fmt.Sprintf("%d/%d", op.Acct, op.Slot)] = true
		}
		if v := invariants(step); v != nil {
			return v
		}
	}
	// classification: two keys sharing a slot (distinct offset, type, name or parent) with a change to each
	nontrivial := false
	slotKeys := map[string]int{}
	for _, k := range accepted {
		slotKeys[fmt.Sprintf("%d/%d", k.loc.acct, k.loc.slot)]++
	}
	for s, n := range slotKeys {
		if n >= 2 && sharedSlotChanged[s] {
			nontrivial = true
		}
	}
	var labels []string
	if conflictAccepted {
		labels = append(labels, "conflicting-registration-accepted")
	}
	if len(accepted) > 0 {
		labels = append(labels, "has-accepted-keys")
	}
	for _, k := range accepted {
		if len(k.path) > 1 {
			labels = append(labels, "nested-key")
			break
		}
	}
	b, _ := json.Marshal(c)
	st.LabelN("ops", len(c.Ops))
	st.Case(b, nontrivial, c, labels...)
	return nil
}

func genApiOp(t *rapid.T) apiOp {
	op := apiOp{Acct: uniform(t, 0, 1, "acct"), Slot: uniform(t, 0, len(c11Slots)-1, "slot"), Type: uniform(t, 0, len(c11Types)-1, "type")}
	// offsets: mostly valid ones
	op.Offset = []int{0, 0, 1, 1, 2, 3, 4, 5, 6, 7, 0, 1, 2, 3, 4, 1, 8, 9, 10, 11, 12, 13, 14, 9}[uniform(t, 0, 23, "offset")]
	switch r := uniform(t, 0, 11, "kind"); {
	case r < 4:
		op.K = "regtop"
		op.Name = uniform(t, 0, len(c11Names)-1, "name")
	case r < 7:
		op.K = "regnested"
		op.Name = uniform(t, 0, len(c11Index)-1, "index")
		op.ParentSlot = uniform(t, 0, len(c11Slots)-1, "pslot")
		op.ParentType = uniform(t, 0, len(c11Types)-1, "ptype")
	case r < 10:
		op.K = "change"
		op.Val = uniform(t, 0, len(c11Vals)-1, "val")
	case r < 11:
		op.K = "enter"
	default:
		op.K = "exit"
	}
	return op
}

func genC11(t *rapid.T) apiCase {
	n := rapid.IntRange(1, 60).Draw(t, "nops")
	var c apiCase
	// a smaller sub-universe per history makes collisions (shared slots) frequent
	nslots := uniform(t, 1, 3, "nslots")
	for i := 0; i < n; i++ {
		op := genApiOp(t)
		op.Slot %= nslots
		op.ParentSlot %= nslots
		if chance(t, 70, "oneacct") {
			op.Acct = 0
		}
		c.Ops = append(c.Ops, op)
	}
	return c
}

func TestC11(t *testing.T)       { runProp(t, "C11", genC11, checkC11) }
func TestC11Replay(t *testing.T) { replayProp(t, "C11", checkC11) }

// TestC11Exhaustive enumerates ALL histories up to a bounded length (quick: 2, thorough: 3) over a
// reduced universe (1 account, 2 slots, offsets {nil,1,32}, 2 types, 2 names,
// 1 index key, 2 values) and decides each with the same oracle.
func TestC11Exhaustive(t *testing.T) {
	st := NewStats("C11")
	defer st.Dump()
	maxLen := 2
	if tierIsThorough() {
		maxLen = 3
	}
	var alphabet []apiOp
	for slot := 0; slot < 2; slot++ {
		for _, off := range []int{0, 2, 5} {
			for typ := 0; typ < 2; typ++ {
				for name := 1; name <= 2; name++ {
					alphabet = append(alphabet, apiOp{K: "regtop", Slot: slot, Offset: off, Type: typ, Name: name})
				}
				if off != 5 {
					alphabet = append(alphabet, apiOp{K: "change", Slot: slot, Offset: off, Type: typ, Val: 1})
				}
				for ps := 0; ps < 2; ps++ {
					alphabet = append(alphabet, apiOp{K: "regnested", Slot: slot, Offset: off, Type: typ, Name: 0, ParentSlot: ps, ParentType: 0})
				}
			}
		}
	}
	alphabet = append(alphabet, apiOp{K: "enter"}, apiOp{K: "exit"})
	total := 0
	var rec func(prefix []apiOp) bool
	rec = func(prefix []apiOp) bool {
		if len(prefix) > 0 {
			total++
			c := apiCase{Ops: append([]apiOp{}, prefix...)}
			if v := checkC11(c, st); v != nil {
				if IsKnownOpen("C11", v.Fingerprint) {
					st.KnownHit(v.Fingerprint)
				} else {
					SaveFail("C11", c, v.Error())
					t.Errorf("property C11 violated (exhaustive, %d ops): %s", len(prefix), v.Error())
					return false
				}
			}
		}
		if len(prefix) == maxLen {
			return true
		}
		for _, op := range alphabet {
			if !rec(append(prefix, op)) {
				return false
			}
		}
		return true
	}
	rec(nil)
	st.SetExtra("exhaustive_histories", total)
	st.SetExtra("exhaustive_max_len", maxLen)
	st.SetExtra("exhaustive_alphabet", len(alphabet))
}
