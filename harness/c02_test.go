package h

import (
	"encoding/json"
	"fmt"
	"testing"

	"pgregory.net/rapid"
)

// ---- C02: gas at every step and for every gas limit ------------------------

func isDebugEv(k EvKind) bool { return k <= EvFault }

// compareStreams compares two recorded debug-tracer streams with the given key
// function and returns a description of the first difference ("" if equal).
func compareStreams(a, u *Recorder, key func(*Ev) string) string {
	i, j := 0, 0
	n := 0
	for {
		for i < len(a.Evs) && !isDebugEv(a.Evs[i].K) {
			i++
		}
		for j < len(u.Evs) && !isDebugEv(u.Evs[j].K) {
			j++
		}
		if i >= len(a.Evs) || j >= len(u.Evs) {
			break
		}
		ka, ku := key(&a.Evs[i]), key(&u.Evs[j])
		if ka != ku {
			return fmt.Sprintf("event #%d differs\n artela:   %s\n upstream: %s", n, ka, ku)
		}
		i++
		j++
		n++
	}
	if i < len(a.Evs) {
		return fmt.Sprintf("artela emits extra event #%d: %s", n, key(&a.Evs[i]))
	}
	if j < len(u.Evs) {
		return fmt.Sprintf("upstream emits extra event #%d: %s", n, key(&u.Evs[j]))
	}
	return ""
}

func isDynamicGasOp(op byte) bool {
	switch op {
	case SSTORE, EXP, KECCAK256, CALLDATACOPY, CODECOPY, EXTCODECOPY, RETURNDATACOPY, MLOAD, MSTORE, MSTORE8, CALL, CALLCODE,
		DELEGATECALL, STATICCALL, CREATE, CREATE2, SELFDESTRUCT, RETURN, REVERT, LOG0, LOG0 + 1, LOG0 + 2, LOG0 + 3, LOG4, SLOAD, BALANCE,
		EXTCODESIZE, EXTCODEHASH:
		return true
	}
	return false
}

type c02Extra struct {
	Sel []uint32 `json:"sel"`
	All bool     `json:"all"` // sweep every candidate limit (bounded)
}

func gasCompare(sc *Scenario, st *Stats) (*UpRun, *ArtelaRun, *Violation) {
	up := RunUpstream(sc, UpOpts{Debug: true})
	for i := range up.Obs {
		if up.Obs[i].Panic != "" {
			st.Exclude("upstream-panic")
			return nil, nil, nil
		}
	}
	if why := outOfStandardDomain(sc, up.Rec); why != "" {
		st.Exclude(why)
		return nil, nil, nil
	}
	art := RunArtela(sc, ArtelaOpts{Debug: true})
	if v := compareObs("C02", "outcome", art.Obs, up.Obs); v != nil {
		return up, art, v
	}
	if d := compareStreams(art.Rec, up.Rec, (*Ev).GasKey); d != "" {
		return up, art, violf("gas-stream", "%s", d)
	}
	return up, art, nil
}

func checkC02(sc *Scenario, st *Stats) *Violation {
	var ex c02Extra
	if len(sc.Extra) > 0 {
		_ = json.Unmarshal(sc.Extra, &ex)
	}
	up, _, v := gasCompare(sc, st)
	if v != nil {
		return v
	}
	if up == nil {
		return nil
	}
	// candidate limits for the LAST invocation from the ample-gas run
	last := len(sc.Invs) - 1
	G := sc.Invs[last].Gas
	inLast := false
	var cands []uint64
	dyn := false
	seen := map[uint64]bool{}
	add := func(x uint64) {
		if x <= G+1 && !seen[x] {
			seen[x] = true
			cands = append(cands, x)
		}
	}
	for i := range up.Rec.Evs {
		e := &up.Rec.Evs[i]
		if e.K == EvInvBegin {
			inLast = int(e.PC) == last
		}
		if !inLast || e.K != EvStep {
			continue
		}
		if isDynamicGasOp(e.Op) {
			dyn = true
		}
		if e.Depth == 1 && e.Gas <= G {
			u := G - e.Gas
			for _, x := range []uint64{u, u + e.Cost} {
				if x > 0 {
					add(x - 1)
				}
				add(x)
				add(x + 1)
			}
		} else if e.Depth > 1 {
			// nested frame: the top-level limit that would just reach this step is
			// not linear in it (63/64 rule); sample limits between the neighbours
			if len(cands) > 0 {
				add(cands[len(cands)-1] + 1 + uint64(e.PC%7))
			}
		}
	}
	base := up.Obs[last].Outcome()
	var chosen []uint64
	if ex.All && len(cands) <= 400 {
		chosen = cands
	} else if len(cands) > 0 {
		for _, s := range ex.Sel {
			chosen = append(chosen, cands[int(s)%len(cands)])
		}
	}
	changed := false
	for _, L := range chosen {
		v2 := sc.Clone()
		v2.Invs[last].Gas = L
		up2, _, v := gasCompare(v2, st)
		if v != nil {
			v.Msg = fmt.Sprintf("with gas limit %d for invocation %d: %s", L, last, v.Msg)
			v.Fingerprint = "sweep/" + v.Fingerprint
			return v
		}
		if up2 != nil && up2.Obs[last].Outcome() != base {
			changed = true
		}
		st.Label("swept-limits")
	}
	nontrivial := dyn && changed
	labels := []string{"fork:" + sc.Fork}
	if dyn {
		labels = append(labels, "dynamic-gas-op")
	}
	if changed {
		labels = append(labels, "limit-changed-outcome")
	}
	for i := range up.Obs {
		labels = append(labels, "err:"+up.Obs[i].ErrClass())
	}
	for op, n := range up.Rec.OpCount {
		if n > 0 {
			st.Label(fmt.Sprintf("fop:%s:%02x", sc.Fork, op))
		}
	}
	st.LabelN("steps", up.Rec.Steps)
	st.LabelN("candidate-limits", len(cands))
	st.Case(sc.JSON(), nontrivial, sc, labels...)
	return nil
}

func genC02(t *rapid.T) *Scenario {
	sc := genStandard(t)
	n := 6
	if tierIsThorough() {
		n = 16
	}
	ex := c02Extra{}
	for i := 0; i < n; i++ {
		ex.Sel = append(ex.Sel, rapid.Uint32().Draw(t, "sweepsel"))
	}
	ex.All = tierIsThorough() && chance(t, 10, "sweepall")
	b, _ := json.Marshal(ex)
	sc.Extra = b
	return sc
}

func TestC02(t *testing.T)       { runProp(t, "C02", genC02, checkC02) }
func TestC02Replay(t *testing.T) { replayProp(t, "C02", checkC02) }
