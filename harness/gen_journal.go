package h

import (
	"math/big"

	"github.com/ethereum/go-ethereum/common"
	"github.com/ethereum/go-ethereum/crypto"
	"github.com/holiman/uint256"
)

// ---------------------------------------------------------------------------
// A fixed, conflict-free family of journal keys covering all eight journal
// opcodes. Names / index keys are functions of the location, so registering a
// key again (from any contract, any frame) is always idempotent.

const (
	jMemName = 0x380 // [len][bytes] scratch area used for names / reference index keys
)

type jFamKey struct {
	// location
	Slot   uint64
	Offset uint64
	Size   uint64
	TypeID uint64
	Ref    bool // reference typed (bytes/string): journaled with VRJNAL
	// path
	Name     string   // top-level: state variable name
	Parent   *jFamKey // nested: parent key (registered at offset 0)
	IndexRef bool     // nested: the index key is reference typed (passed through memory)
	IndexVal uint64   // nested: value index key
	IndexStr string   // nested: reference index key
}

var (
	jTopValue []*jFamKey
	jTopRef   []*jFamKey
	jNested   []*jFamKey
	jRefSlots []uint64
)

func init() {
	for i := range journalKeys {
		k := journalKeys[i]
		jTopValue = append(jTopValue, &jFamKey{Slot: k.Slot, Offset: k.Offset, Size: k.Size, TypeID: k.TypeID, Name: k.Name})
	}
	for i := uint64(0); i < 3; i++ {
		jTopRef = append(jTopRef, &jFamKey{Slot: 0x1000 + i, TypeID: 0x5000 + i, Ref: true, Name: string([]byte{'s', byte('0' + i)})})
		jRefSlots = append(jRefSlots, 0x1000+i)
	}
	n := uint64(0)
	for _, p := range jTopValue {
		if p.Offset != 0 || p.Size != 32 {
			continue
		}
		for v := uint64(0); v < 4; v++ {
			c := &jFamKey{Parent: p, TypeID: 0x6000 + n}
			switch v {
			case 0: // value typed member, value index (IVVVJNAL)
				c.Slot, c.Offset, c.Size, c.IndexVal = 0x2000+n, 0, 32, n+1
			case 1: // value typed member, reference index (IRVVJNAL)
				c.Slot, c.Offset, c.Size, c.IndexRef, c.IndexStr = 0x2000+n, 4, 8, true, string([]byte{'k', byte('a' + n)})
			case 2: // reference typed member, value index (IVVRJNAL)
				c.Slot, c.Ref, c.IndexVal = 0x3000+n, true, n+1
				jRefSlots = append(jRefSlots, c.Slot)
			default: // reference typed member, reference index (IRVRJNAL)
				c.Slot, c.Ref, c.IndexRef, c.IndexStr = 0x3000+n, true, true, string([]byte{'r', byte('a' + n)})
				jRefSlots = append(jRefSlots, c.Slot)
			}
			jNested = append(jNested, c)
			n++
		}
	}
}

// journalPrestate returns storage entries giving every reference typed family
// slot a valid string encoding (generated programs never write those slots).
func journalPrestate(pick func(n int) int) map[common.Hash]common.Hash {
	st := map[common.Hash]common.Hash{}
	for i, s := range jRefSlots {
		var w common.Hash
		switch pick(3) {
		case 0: // empty string
		case 1:
			copy(w[:], "hello")
			w[31] = 10
		default:
			// long string of 40 bytes
			w = common.BigToHash(big.NewInt(81))
			slot := common.BigToHash(new(big.Int).SetUint64(s))
			base := new(big.Int).SetBytes(keccak(slot[:]))
			for j := 0; j < 2; j++ {
				var d common.Hash
				for x := range d {
					d[x] = byte(i*7 + j*3 + x)
				}
				st[common.BigToHash(new(big.Int).Add(base, big.NewInt(int64(j))))] = d
			}
		}
		st[common.BigToHash(new(big.Int).SetUint64(s))] = w
	}
	return st
}

func (c *codeGen) site(op byte, k int) {
	c.sites = append(c.sites, JSite{Pos: c.a.Len(), K: k, Op: op})
	c.a.Op(op)
	for i := 1; i < k; i++ {
		c.a.Op(JUMPDEST)
	}
}

// memString writes [len][bytes] at jMemName (all of it inside allocated memory).
func (c *codeGen) memString(s string) {
	c.a.Push(len(s)).Push(jMemName).Op(MSTORE)
	var w [32]byte
	copy(w[:], s)
	c.a.PushBytes(w[:]).Push(jMemName + 32).Op(MSTORE)
}

func (c *codeGen) registerKey(k *jFamKey) {
	a := c.a
	if k.Parent == nil {
		c.memString(k.Name)
		if k.Ref {
			a.Push(k.TypeID).Push(k.Slot).Push(jMemName)
			c.site(RSVJNAL, 3)
		} else {
			a.Push(k.TypeID).Push(k.Offset).Push(k.Slot).Push(jMemName)
			c.site(VSVJNAL, 4)
		}
		return
	}
	c.registerKey(k.Parent)
	p := k.Parent
	switch {
	case !k.Ref && !k.IndexRef: // IVVVJNAL(base, slot, keyValue, offset, typeId, parentTypeId)
		a.Push(p.TypeID).Push(k.TypeID).Push(k.Offset).Push(k.IndexVal).Push(k.Slot).Push(p.Slot)
		c.site(IVVVJNAL, 6)
	case !k.Ref && k.IndexRef: // IRVVJNAL(base, slot, keyPtr, offset, typeId, parentTypeId)
		c.memString(k.IndexStr)
		a.Push(p.TypeID).Push(k.TypeID).Push(k.Offset).Push(jMemName).Push(k.Slot).Push(p.Slot)
		c.site(IRVVJNAL, 6)
	case k.Ref && !k.IndexRef: // IVVRJNAL(base, slot, keyValue, typeId, parentTypeId)
		a.Push(p.TypeID).Push(k.TypeID).Push(k.IndexVal).Push(k.Slot).Push(p.Slot)
		c.site(IVVRJNAL, 5)
	default: // IRVRJNAL(base, slot, keyPtr, typeId, parentTypeId)
		c.memString(k.IndexStr)
		a.Push(p.TypeID).Push(k.TypeID).Push(jMemName).Push(k.Slot).Push(p.Slot)
		c.site(IRVRJNAL, 5)
	}
}

func (c *codeGen) journalChange(k *jFamKey) {
	if k.Ref {
		c.a.Push(k.TypeID).Push(k.Slot)
		c.site(VRJNAL, 2)
	} else {
		c.a.Push(k.TypeID).Push(k.Size).Push(k.Offset).Push(k.Slot)
		c.site(VVJNAL, 4)
	}
}

// journalBlock: register a key of the family (parents first) and journal it.
func (c *codeGen) journalBlock() {
	t := c.t()
	var k *jFamKey
	switch uniform(t, 0, 3, "jfam") {
	case 0:
		k = jTopValue[uniform(t, 0, len(jTopValue)-1, "jtopv")]
	case 1:
		k = jTopRef[uniform(t, 0, len(jTopRef)-1, "jtopr")]
	default:
		k = jNested[uniform(t, 0, len(jNested)-1, "jnest")]
	}
	if !k.Ref && chance(t, 50, "jbstore") {
		c.a.Push(genWord(t, "jbval")).Push(k.Slot).Op(SSTORE)
	}
	c.registerKey(k)
	n := 1 + uniform(t, 0, 1, "jbn")
	for i := 0; i < n; i++ {
		c.journalChange(k)
	}
}

var _ = uint256.NewInt

func keccak(b []byte) []byte { return crypto.Keccak256(b) }
