package h

import (
	"context"
	"fmt"
	"math/big"
	"runtime/debug"
	"sort"
	"strings"

	artcore "github.com/artela-network/artela-evm/core"
	avm "github.com/artela-network/artela-evm/vm"
	"github.com/ethereum/go-ethereum/common"
	ethcore "github.com/ethereum/go-ethereum/core"
	"github.com/ethereum/go-ethereum/core/rawdb"
	"github.com/ethereum/go-ethereum/core/state"
	"github.com/ethereum/go-ethereum/core/types"
	uvm "github.com/ethereum/go-ethereum/core/vm"
	"github.com/ethereum/go-ethereum/crypto"
	"github.com/ethereum/go-ethereum/params"
	"github.com/holiman/uint256"
)

// LogObs is a consensus view of a log.
type LogObs struct {
	Addr   common.Address
	Topics []common.Hash
	Data   []byte
}

func (l LogObs) String() string {
	return fmt.Sprintf("%x|%x|%x", l.Addr, l.Topics, l.Data)
}

// AcctObs is the observable state of one account.
type AcctObs struct {
	Exists   bool
	Balance  string
	Nonce    uint64
	CodeHash common.Hash
	Suicided bool
	Storage  map[common.Hash]common.Hash
}

// Obs is what is observed after one top-level invocation.
type Obs struct {
	Ret      []byte
	Err      string
	ErrIs    error
	Gas      uint64
	Created  common.Address
	Root     common.Hash
	Logs     []LogObs
	Refund   uint64
	Suicided []common.Address
	Accts    map[common.Address]AcctObs
	Panic    string
}

// ErrClass: "", revert, oog, or other:<normalised text>
func (o *Obs) ErrClass() string { return errClass(o.Err) }

func errClass(s string) string {
	switch {
	case s == "":
		return ""
	case s == "execution reverted":
		return "revert"
	case s == "out of gas":
		return "oog"
	}
	return "other:" + normErr(s)
}

// Outcome renders the implementation independent outcome of an invocation.
func (o *Obs) Outcome() string {
	var sb strings.Builder
	fmt.Fprintf(&sb, "ret=%x err=%s gas=%d created=%x root=%x refund=%d suicided=%x panic=%q logs=", o.Ret, o.ErrClass(), o.Gas, o.Created, o.Root, o.Refund, o.Suicided, o.Panic)
	for _, l := range o.Logs {
		sb.WriteString(l.String())
		sb.WriteByte(';')
	}
	return sb.String()
}

// AcctDiff lists differences of per-account dumps (to localise a root mismatch).
func AcctDiff(a, b map[common.Address]AcctObs) string {
	var sb strings.Builder
	keys := map[common.Address]bool{}
	for k := range a {
		keys[k] = true
	}
	for k := range b {
		keys[k] = true
	}
	ks := make([]common.Address, 0, len(keys))
	for k := range keys {
		ks = append(ks, k)
	}
	sort.Slice(ks, func(i, j int) bool { return string(ks[i][:]) < string(ks[j][:]) })
	for _, k := range ks {
		x, y := a[k], b[k]
		if fmt.Sprint(x) != fmt.Sprint(y) {
			fmt.Fprintf(&sb, "%x: %v vs %v\n", k, x, y)
		}
	}
	return sb.String()
}

// StateView abstracts the few reads the observation needs.
type stateReader interface {
	Exist(common.Address) bool
	GetBalance(common.Address) *big.Int
	GetNonce(common.Address) uint64
	GetCodeHash(common.Address) common.Hash
	HasSuicided(common.Address) bool
	GetState(common.Address, common.Hash) common.Hash
}

func observeAccounts(st stateReader, universe []common.Address, slots []common.Hash) map[common.Address]AcctObs {
	out := map[common.Address]AcctObs{}
	for _, a := range universe {
		o := AcctObs{Exists: st.Exist(a), Balance: st.GetBalance(a).String(), Nonce: st.GetNonce(a), CodeHash: st.GetCodeHash(a), Suicided: st.HasSuicided(a)}
		if o.CodeHash == crypto.Keccak256Hash(nil) {
			o.CodeHash = common.Hash{}
		}
		for _, s := range slots {
			v := st.GetState(a, s)
			if v != (common.Hash{}) {
				if o.Storage == nil {
					o.Storage = map[common.Hash]common.Hash{}
				}
				o.Storage[s] = v
			}
		}
		out[a] = o
	}
	return out
}

// Digest is a canonical rendering of (accounts, logs) used by the atomicity
// checks. A non-existent account is equivalent to an empty one.
func Digest(st stateReader, logs []*types.Log, universe []common.Address, slots []common.Hash) string {
	var sb strings.Builder
	for _, a := range universe {
		bal := st.GetBalance(a)
		nonce := st.GetNonce(a)
		ch := st.GetCodeHash(a)
		if ch == crypto.Keccak256Hash(nil) {
			ch = common.Hash{}
		}
		fmt.Fprintf(&sb, "%x:b=%s,n=%d,c=%x,s=%v", a, bal, nonce, ch[:4], st.HasSuicided(a))
		for _, s := range slots {
			v := st.GetState(a, s)
			if v != (common.Hash{}) {
				fmt.Fprintf(&sb, ",%x=%x", s[28:], v)
			}
		}
		sb.WriteByte('\n')
	}
	// StateDB.Logs() ranges over a map keyed by transaction: order by log index
	logs = append([]*types.Log(nil), logs...)
	sort.Slice(logs, func(i, j int) bool { return logs[i].Index < logs[j].Index })
	fmt.Fprintf(&sb, "logs=%d", len(logs))
	for _, l := range logs {
		fmt.Fprintf(&sb, ";%x|%x|%x", l.Address[18:], l.Topics, l.Data)
	}
	return sb.String()
}

func buildState(sc *Scenario) *state.StateDB {
	db := state.NewDatabase(rawdb.NewMemoryDatabase())
	st, err := state.New(types.EmptyRootHash, db, nil)
	if err != nil {
		panic(err)
	}
	for _, a := range sc.Accounts {
		st.CreateAccount(a.Addr)
		st.SetBalance(a.Addr, bigOf(a.Balance))
		st.SetNonce(a.Addr, a.Nonce)
		if len(a.Code) > 0 {
			st.SetCode(a.Addr, a.Code)
		}
		for k, v := range a.Storage {
			st.SetState(a.Addr, k, v)
		}
	}
	root, err := st.Commit(false)
	if err != nil {
		panic(err)
	}
	st, err = state.New(root, db, nil)
	if err != nil {
		panic(err)
	}
	return st
}

func accessList(inv *Invocation) types.AccessList {
	var al types.AccessList
	if inv.Kind == "callcode" || inv.Kind == "delegatecall" {
		// CALLCODE/DELEGATECALL execute in the caller's storage context. Inside a
		// transaction that caller is always an already warm contract; a top-level
		// use of these entry points has to provide the same (otherwise upstream
		// itself panics in SSTORE: "address was not present in access list").
		al = append(al, types.AccessTuple{Address: inv.Caller})
	}
	for _, t := range inv.Access {
		al = append(al, types.AccessTuple{Address: t.Address, StorageKeys: t.Keys})
	}
	return al
}

func txHash(i int) common.Hash { return common.BigToHash(big.NewInt(int64(0x7000 + i))) }

func blockHashFn(n uint64) common.Hash {
	return crypto.Keccak256Hash([]byte(fmt.Sprintf("block-%d", n)))
}

var scenCoinbase = common.HexToAddress("0x00000000000000000000000000000000c01bba5e")

var scenRandom = common.HexToHash("0x1234567890abcdef1234567890abcdef1234567890abcdef1234567890abcdef")

// ---------------------------------------------------------------------------
// Artela executor

type ArtelaOpts struct {
	Debug     bool // install the recorder as debug tracer
	Rec       *Recorder
	Inner     avm.EVMLogger
	Script    *JPScript // per-case join-point script (nil: nothing bound, lookups not logged)
	WrapState func(avm.StateDB) avm.StateDB
	OnEVM     func(evm *avm.EVM, st *state.StateDB)
	// WrapTransfer lets a check observe transfers; it receives the real function.
	OnTransfer    func(st *state.StateDB, evm *avm.EVM, from, to common.Address, amount *big.Int, before bool)
	OnCanTransfer func(st *state.StateDB, evm *avm.EVM, from common.Address, amount *big.Int)
	AfterInv      func(i int, evm *avm.EVM, st *state.StateDB, obs *Obs)
	BeforeInv     func(i int, evm *avm.EVM, st *state.StateDB)
	Slots         []common.Hash
	NoTxEvents    bool
	NoRoot        bool             // skip IntermediateRoot (keeps the journal intact)
	ExtraAddrs    []common.Address // additional accounts to observe after each invocation
	JPOverride    *bool            // force join points on/off for all invocations
	NullTracer    bool             // install a do-nothing debug tracer (debug mode without recording)
	CustomTracer  avm.EVMLogger    // installed as Config.Tracer as is (no recorder)
	// DigestAt, if set, is evaluated at every transfer / can-transfer wrapper call
	// (before the transfer) and stored in the event.
	DigestAt func(st *state.StateDB) string
	// InnerFor, if set, supplies a fresh real tracer per invocation (Debug must be on).
	InnerFor func(i int, evm *avm.EVM, inv *Invocation) avm.EVMLogger
	Ctx      context.Context
	// ShareConfig hands the scenario's own ExtraEips slice to the EVM (no private copy)
	ShareConfig bool
	// OnGetHash observes every block-hash lookup the VM makes at the host
	OnGetHash func(n uint64)
}

type ArtelaRun struct {
	Obs   []Obs
	Rec   *Recorder
	EVM   *avm.EVM
	State *state.StateDB
}

func RunArtela(sc *Scenario, opt ArtelaOpts) *ArtelaRun {
	InitHost()
	st := buildState(sc)
	cfg := ChainConfigFor(sc.Fork)
	rec := opt.Rec
	if rec == nil {
		rec = NewRecorder()
	}
	var evm *avm.EVM
	bctx := avm.BlockContext{
		CanTransfer: func(db avm.StateDB, a common.Address, amt *big.Int) bool {
			if opt.OnCanTransfer != nil {
				opt.OnCanTransfer(st, evm, a, amt)
			}
			ok := artcore.CanTransfer(db, a, amt)
			ev := Ev{K: EvCanTransfer, From: a, Value: cpBig(amt), Create: ok}
			if opt.DigestAt != nil {
				ev.Digest = opt.DigestAt(st)
			}
			rec.add(ev)
			return ok
		},
		Transfer: func(db avm.StateDB, from, to common.Address, amt *big.Int) {
			if opt.OnTransfer != nil {
				opt.OnTransfer(st, evm, from, to, amt, true)
			}
			ev := Ev{K: EvTransfer, From: from, To: to, Value: cpBig(amt), BalFromBefore: cpBig(st.GetBalance(from)), BalToBefore: cpBig(st.GetBalance(to)), CodeLen: len(st.GetCode(to))}
			if opt.DigestAt != nil {
				ev.Digest = opt.DigestAt(st)
			}
			artcore.Transfer(db, from, to, amt)
			ev.BalFromAfter, ev.BalToAfter = cpBig(st.GetBalance(from)), cpBig(st.GetBalance(to))
			rec.add(ev)
			if opt.OnTransfer != nil {
				opt.OnTransfer(st, evm, from, to, amt, false)
			}
		},
		GetHash: func(n uint64) common.Hash {
			if opt.OnGetHash != nil {
				opt.OnGetHash(n)
			}
			return blockHashFn(n)
		},
		Coinbase:    scenCoinbase,
		GasLimit:    30_000_000,
		BlockNumber: big.NewInt(scenBlockNumber),
		Time:        scenTime,
		Difficulty:  big.NewInt(0x20000),
		BaseFee:     big.NewInt(7),
	}
	if forkIsMerge(sc.Fork) {
		r := scenRandom
		bctx.Random = &r
		bctx.Difficulty = big.NewInt(0)
	}
	vmcfg := avm.Config{ExtraEips: append([]int(nil), sc.ExtraEips...)}
	if opt.ShareConfig {
		// as a host does: one vm.Config value handed to every EVM it builds, the list of
		// extra EIPs is the same backing array for all of them
		vmcfg.ExtraEips = sc.ExtraEips
	}
	var logger *ArtelaLogger
	if opt.Debug {
		logger = &ArtelaLogger{R: rec, Inner: opt.Inner}
		vmcfg.Tracer = logger
	} else if opt.NullTracer {
		vmcfg.Tracer = nullArtelaTracer{}
	} else if opt.CustomTracer != nil {
		vmcfg.Tracer = opt.CustomTracer
	}
	var sdb avm.StateDB = st
	if opt.WrapState != nil {
		sdb = opt.WrapState(st)
	}
	msg := &ethcore.Message{GasPrice: big.NewInt(10)}
	evm = avm.NewEVM(bctx, avm.TxContext{GasPrice: big.NewInt(10), Message: msg}, sdb, cfg, vmcfg)
	if opt.OnEVM != nil {
		opt.OnEVM(evm, st)
	}
	rules := cfg.Rules(bctx.BlockNumber, bctx.Random != nil, bctx.Time)
	ctx := opt.Ctx
	if ctx == nil {
		ctx = context.Background()
	}
	script := opt.Script
	if script == nil {
		script = NewJPScript(sc, rec)
	}
	ctx = WithJPScript(ctx, script)

	out := &ArtelaRun{Rec: rec, EVM: evm, State: st}
	universe := sc.Universe()
	for _, a := range opt.ExtraAddrs {
		dup := false
		for _, b := range universe {
			dup = dup || a == b
		}
		if !dup {
			universe = append(universe, a)
		}
	}
	for i := range sc.Invs {
		inv := &sc.Invs[i]
		evm.TxContext.Origin = inv.Origin
		st.SetTxContext(txHash(i), i)
		dest := &inv.To
		if inv.Kind == "create" || inv.Kind == "create2" {
			dest = nil
		}
		st.Prepare(rules, inv.Origin, scenCoinbase, dest, avm.ActivePrecompiles(rules), accessList(inv))
		jp := inv.JP
		if opt.JPOverride != nil {
			jp = *opt.JPOverride
		}
		if jp {
			evm.AspectCall()
		} else {
			evm.CloseAspectCall()
		}
		if inv.Reset {
			evm.Reset(evm.TxContext, evm.StateDB)
		}
		if opt.BeforeInv != nil {
			opt.BeforeInv(i, evm, st)
		}
		if logger != nil && opt.InnerFor != nil {
			logger.Inner = opt.InnerFor(i, evm, inv)
		}
		rec.add(Ev{K: EvInvBegin, PC: uint64(i)})
		if logger != nil && !opt.NoTxEvents {
			logger.CaptureTxStart(inv.Gas)
		}
		obs := artelaInvoke(ctx, evm, inv)
		if logger != nil && !opt.NoTxEvents && obs.Panic == "" {
			logger.CaptureTxEnd(obs.Gas)
		}
		rec.add(Ev{K: EvInvEnd, PC: uint64(i)})
		obs.Refund = st.GetRefund()
		for _, l := range st.GetLogs(txHash(i), scenBlockNumber, common.Hash{}) {
			obs.Logs = append(obs.Logs, LogObs{Addr: l.Address, Topics: l.Topics, Data: l.Data})
		}
		u := universe
		if obs.Created != (common.Address{}) {
			u = append(append([]common.Address{}, universe...), obs.Created)
		}
		for _, a := range u {
			if st.HasSuicided(a) {
				obs.Suicided = append(obs.Suicided, a)
			}
		}
		if opt.AfterInv != nil {
			opt.AfterInv(i, evm, st, &obs)
		}
		if !opt.NoRoot {
			obs.Root = st.IntermediateRoot(rules.IsEIP158)
		} else {
			st.Finalise(rules.IsEIP158)
		}
		obs.Accts = observeAccounts(st, u, opt.Slots)
		out.Obs = append(out.Obs, obs)
	}
	return out
}

func artelaInvoke(ctx context.Context, evm *avm.EVM, inv *Invocation) (obs Obs) {
	defer func() {
		if r := recover(); r != nil {
			obs.Panic = fmt.Sprintf("%v\n%s", r, debug.Stack())
		}
	}()
	value := bigOf(inv.Value)
	var ret []byte
	var gas uint64
	var err error
	// The caller of a top-level frame is a contract object so that DELEGATECALL
	// (which needs the parent's caller and value) is well defined.
	caller := avm.NewContract(avm.AccountRef(inv.Origin), avm.AccountRef(inv.Caller), value, inv.Gas)
	// calldata in a buffer of exactly its length (and nil when empty): a read
	// beyond the payload must fault instead of silently seeing spare capacity
	inv = exactInput(inv)
	switch inv.Kind {
	case "call":
		ret, gas, err = evm.Call(ctx, caller, inv.To, inv.Input, inv.Gas, value)
	case "callcode":
		ret, gas, err = evm.CallCode(ctx, caller, inv.To, inv.Input, inv.Gas, value)
	case "delegatecall":
		ret, gas, err = evm.DelegateCall(ctx, caller, inv.To, inv.Input, inv.Gas)
	case "staticcall":
		ret, gas, err = evm.StaticCall(ctx, caller, inv.To, inv.Input, inv.Gas)
	case "create":
		ret, obs.Created, gas, err = evm.Create(ctx, caller, inv.Input, inv.Gas, value)
	case "create2":
		salt, _ := uint256.FromBig(bigOf(inv.Salt))
		ret, obs.Created, gas, err = evm.Create2(ctx, caller, inv.Input, inv.Gas, value, salt)
	default:
		panic("bad kind " + inv.Kind)
	}
	obs.Ret = cpBytes(ret)
	obs.Gas = gas
	obs.Err = errText(err)
	obs.ErrIs = err
	return obs
}

// ---------------------------------------------------------------------------
// upstream (reference) executor

type UpOpts struct {
	Debug      bool
	Rec        *Recorder
	Inner      uvm.EVMLogger
	Slots      []common.Hash
	NoTxEvents bool
	// Translate rewrites the code of accounts / init code before execution (C15:
	// Artela opcode positions -> upstream ones).
	OnEVM    func(evm *uvm.EVM, st *state.StateDB)
	InnerFor func(i int, evm *uvm.EVM, inv *Invocation) uvm.EVMLogger
	// CustomTracer is installed as Config.Tracer as is; WrapState wraps the state database.
	CustomTracer uvm.EVMLogger
	WrapState    func(uvm.StateDB) uvm.StateDB
}

type UpRun struct {
	Obs   []Obs
	Rec   *Recorder
	EVM   *uvm.EVM
	State *state.StateDB
}

func RunUpstream(sc *Scenario, opt UpOpts) *UpRun {
	st := buildState(sc)
	cfg := ChainConfigFor(sc.Fork)
	rec := opt.Rec
	if rec == nil {
		rec = NewRecorder()
	}
	bctx := uvm.BlockContext{
		CanTransfer: ethcore.CanTransfer,
		Transfer:    ethcore.Transfer,
		GetHash:     blockHashFn,
		Coinbase:    scenCoinbase,
		GasLimit:    30_000_000,
		BlockNumber: big.NewInt(scenBlockNumber),
		Time:        scenTime,
		Difficulty:  big.NewInt(0x20000),
		BaseFee:     big.NewInt(7),
	}
	if forkIsMerge(sc.Fork) {
		r := scenRandom
		bctx.Random = &r
		bctx.Difficulty = big.NewInt(0)
	}
	vmcfg := uvm.Config{ExtraEips: append([]int(nil), sc.ExtraEips...)}
	var logger *UpLogger
	if opt.Debug {
		logger = &UpLogger{R: rec, Inner: opt.Inner}
		vmcfg.Tracer = logger
	}
	if opt.CustomTracer != nil && !opt.Debug {
		vmcfg.Tracer = opt.CustomTracer
	}
	var usdb uvm.StateDB = st
	if opt.WrapState != nil {
		usdb = opt.WrapState(st)
	}
	evm := uvm.NewEVM(bctx, uvm.TxContext{GasPrice: big.NewInt(10)}, usdb, cfg, vmcfg)
	if opt.OnEVM != nil {
		opt.OnEVM(evm, st)
	}
	rules := cfg.Rules(bctx.BlockNumber, bctx.Random != nil, bctx.Time)
	out := &UpRun{Rec: rec, EVM: evm, State: st}
	universe := sc.Universe()
	for i := range sc.Invs {
		inv := &sc.Invs[i]
		evm.TxContext.Origin = inv.Origin
		st.SetTxContext(txHash(i), i)
		dest := &inv.To
		if inv.Kind == "create" || inv.Kind == "create2" {
			dest = nil
		}
		st.Prepare(rules, inv.Origin, scenCoinbase, dest, uvm.ActivePrecompiles(rules), accessList(inv))
		if logger != nil && opt.InnerFor != nil {
			logger.Inner = opt.InnerFor(i, evm, inv)
		}
		rec.add(Ev{K: EvInvBegin, PC: uint64(i)})
		if logger != nil && !opt.NoTxEvents {
			logger.CaptureTxStart(inv.Gas)
		}
		if inv.Reset {
			evm.Reset(evm.TxContext, evm.StateDB)
		}
		obs := upInvoke(evm, inv)
		if logger != nil && !opt.NoTxEvents && obs.Panic == "" {
			logger.CaptureTxEnd(obs.Gas)
		}
		rec.add(Ev{K: EvInvEnd, PC: uint64(i)})
		obs.Refund = st.GetRefund()
		for _, l := range st.GetLogs(txHash(i), scenBlockNumber, common.Hash{}) {
			obs.Logs = append(obs.Logs, LogObs{Addr: l.Address, Topics: l.Topics, Data: l.Data})
		}
		u := universe
		if obs.Created != (common.Address{}) {
			u = append(append([]common.Address{}, universe...), obs.Created)
		}
		for _, a := range u {
			if st.HasSuicided(a) {
				obs.Suicided = append(obs.Suicided, a)
			}
		}
		obs.Root = st.IntermediateRoot(rules.IsEIP158)
		obs.Accts = observeAccounts(st, u, opt.Slots)
		out.Obs = append(out.Obs, obs)
	}
	return out
}

func upInvoke(evm *uvm.EVM, inv *Invocation) (obs Obs) {
	defer func() {
		if r := recover(); r != nil {
			obs.Panic = fmt.Sprintf("%v\n%s", r, debug.Stack())
		}
	}()
	value := bigOf(inv.Value)
	var ret []byte
	var gas uint64
	var err error
	caller := uvm.NewContract(uvm.AccountRef(inv.Origin), uvm.AccountRef(inv.Caller), value, inv.Gas)
	switch inv.Kind {
	case "call":
		ret, gas, err = evm.Call(caller, inv.To, inv.Input, inv.Gas, value)
	case "callcode":
		ret, gas, err = evm.CallCode(caller, inv.To, inv.Input, inv.Gas, value)
	case "delegatecall":
		ret, gas, err = evm.DelegateCall(caller, inv.To, inv.Input, inv.Gas)
	case "staticcall":
		ret, gas, err = evm.StaticCall(caller, inv.To, inv.Input, inv.Gas)
	case "create":
		ret, obs.Created, gas, err = evm.Create(caller, inv.Input, inv.Gas, value)
	case "create2":
		salt, _ := uint256.FromBig(bigOf(inv.Salt))
		ret, obs.Created, gas, err = evm.Create2(caller, inv.Input, inv.Gas, value, salt)
	default:
		panic("bad kind " + inv.Kind)
	}
	obs.Ret = cpBytes(ret)
	obs.Gas = gas
	obs.Err = errText(err)
	obs.ErrIs = err
	return obs
}

var _ = params.Rules{}

// nullArtelaTracer switches the interpreter into debug mode without recording.
type nullArtelaTracer struct{}

func (nullArtelaTracer) CaptureTxStart(uint64) {}
func (nullArtelaTracer) CaptureTxEnd(uint64)   {}
func (nullArtelaTracer) CaptureStart(*avm.EVM, common.Address, common.Address, bool, []byte, uint64, *big.Int) {
}
func (nullArtelaTracer) CaptureEnd([]byte, uint64, error) {}
func (nullArtelaTracer) CaptureEnter(avm.OpCode, common.Address, common.Address, []byte, uint64, *big.Int) {
}
func (nullArtelaTracer) CaptureExit([]byte, uint64, error) {}
func (nullArtelaTracer) CaptureState(uint64, avm.OpCode, uint64, uint64, *avm.ScopeContext, []byte, int, error) {
}
func (nullArtelaTracer) CaptureFault(uint64, avm.OpCode, uint64, uint64, *avm.ScopeContext, int, error) {
}

// exactInput returns the invocation with its input copied into a slice whose
// capacity equals its length.
func exactInput(inv *Invocation) *Invocation {
	if len(inv.Input) == 0 {
		return inv
	}
	c := *inv
	c.Input = make([]byte, len(inv.Input))
	copy(c.Input, inv.Input)
	return &c
}
