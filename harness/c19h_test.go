package h

import (
	"encoding/json"
	"fmt"
	"math/big"
	"runtime/debug"
	"testing"

	atracers "github.com/artela-network/artela-evm/tracers"
	avm "github.com/artela-network/artela-evm/vm"
	"github.com/ethereum/go-ethereum/common"
	"pgregory.net/rapid"
)

// ---- C19, hybrid stage: the real EVM with real Aspects drives the real tracers ----
//
// The recorded event stream (frames, aspect executions) is the oracle's input;
// the tracer that ran beside the recorder must report exactly that tree.

type c19hExtra struct {
	Tracer string          `json:"tracer"`
	Cfg    map[string]bool `json:"cfg"`
}

func checkC19Hybrid(sc *Scenario, st *Stats) (viol *Violation) {
	var ex c19hExtra
	_ = json.Unmarshal(sc.Extra, &ex)
	cfgJSON, _ := json.Marshal(ex.Cfg)
	var tracersUsed []atracers.Tracer
	var results []json.RawMessage
	var panicMsg string
	an, bad := func() (a *jpAnalysis, b string) {
		defer func() {
			if r := recover(); r != nil {
				panicMsg = fmt.Sprintf("%v\n%s", r, debug.Stack())
			}
		}()
		return analyseJP(sc, ArtelaOpts{InnerFor: func(i int, evm *avm.EVM, inv *Invocation) avm.EVMLogger {
			tr, err := atracers.DefaultDirectory.New(ex.Tracer, &atracers.Context{BlockNumber: big.NewInt(scenBlockNumber), TxHash: txHash(i), TxIndex: i}, cfgJSON)
			if err != nil {
				panic(err)
			}
			tracersUsed = append(tracersUsed, tr)
			return tr
		}})
	}()
	if panicMsg != "" {
		return violf("panic", "tracer %s %s panicked while driven by a real execution: %.1500s", ex.Tracer, cfgJSON, panicMsg)
	}
	if bad != "" {
		if an == nil && len(tracersUsed) > 0 {
			// an entry point panicked: if the panic came out of a tracer callback it is this property's
			if contains(bad, "tracers/native") {
				return violf("panic", "tracer %s %s panicked inside a real execution: %.1500s", ex.Tracer, cfgJSON, bad)
			}
		}
		st.Exclude("panic-or-unbalanced(C03/C18)")
		return nil
	}
	for _, tr := range tracersUsed {
		r, err := func() (r json.RawMessage, err error) {
			defer func() {
				if x := recover(); x != nil {
					err = fmt.Errorf("panic in GetResult: %v", x)
				}
			}()
			return tr.GetResult()
		}()
		if err != nil {
			return violf("result-error", "GetResult of %s failed after a real execution: %v", ex.Tracer, err)
		}
		results = append(results, r)
	}
	// build the expected tree from the event log (address table per case)
	var tab []common.Address
	idx := func(a common.Address) int {
		for i, x := range tab {
			if x == a {
				return i
			}
		}
		tab = append(tab, a)
		return len(tab) - 1
	}
	evs := an.art.Rec.Evs
	aspectsOf := func(fs []*jpFiring, jp int64) []evAspect {
		var out []evAspect
		for _, f := range fs {
			for _, ar := range f.Aspects {
				a := evs[ar.EnterEv].Aspect
				out = append(out, evAspect{JP: jp, Addr: &a, SkipInput: true, GasIn: ar.GasIn, GasOut: ar.GasOut, Ret: evs[maxInt(ar.ExitEv, 0)].Output, Err: ar.Err})
			}
		}
		return out
	}
	var conv func(F *Frame) evFrame
	conv = func(F *Frame) evFrame {
		f := evFrame{Type: F.Kind, From: idx(F.From), To: idx(F.To), Gas: F.Gas, GasUsed: F.GasUsed, Err: F.Err, Output: F.Output, Input: F.Input, Value: -1}
		if F.Create && F.Top && F.Parent == nil {
			f.Type = CREATE
		}
		f.Pre = aspectsOf(an.pre[F], 4)
		f.Post = aspectsOf(an.post[F], 8)
		for _, c := range F.Children {
			f.Calls = append(f.Calls, conv(c))
		}
		return f
	}
	naspects, multi := 0, false
	for i, top := range an.fl.Tops {
		if i >= len(results) {
			break
		}
		inv := sc.Invs[top.Inv]
		if inv.Kind != "call" && inv.Kind != "create" && inv.Kind != "create2" {
			continue
		}
		want := conv(top)
		pre := map[common.Address]bool{}
		for _, a := range tab {
			pre[a] = isPrecompileAddr(sc.Fork, a)
		}
		cmpAddrs = tab
		cmpIsPre = func(i int) bool { return pre[tab[i]] }
		var count func(f *evFrame)
		count = func(f *evFrame) {
			naspects += len(f.Pre) + len(f.Post)
			if len(f.Pre) >= 2 || len(f.Post) >= 2 {
				multi = true
			}
			for k := range f.Calls {
				count(&f.Calls[k])
			}
		}
		count(&want)
		res := results[top.Inv]
		if ex.Tracer == "callTracer" {
			var got outFrame
			if err := json.Unmarshal(res, &got); err != nil {
				return violf("decode", "%v: %s", err, res)
			}
			if uint64(got.Gas) != inv.Gas || uint64(got.GasUsed) != inv.Gas-an.art.Obs[top.Inv].Gas {
				return violf("hybrid/top-gas", "invocation %d: top frame gas %d used %d, the transaction had %d and %d left", top.Inv, got.Gas, got.GasUsed, inv.Gas, an.art.Obs[top.Inv].Gas)
			}
			if ex.Cfg["onlyTopCall"] {
				continue
			}
			if d := cmpFrame("top", &want, &got, true); d != "" {
				return violf("hybrid/nested", "invocation %d: %s\n result: %.3000s", top.Inv, d, res)
			}
		} else {
			var got []outFlat
			if err := json.Unmarshal(res, &got); err != nil {
				return violf("decode", "%v: %s", err, res)
			}
			var exp []flatWant
			flatExpect(&want, []int{}, ex.Cfg["includePrecompiles"], &exp)
			if len(exp) != len(got) {
				return violf("hybrid/flat-count", "invocation %d: flat tracer emitted %d frames, %d EVM and Aspect frames happened\n result: %.3000s", top.Inv, len(got), len(exp), res)
			}
			for k := range exp {
				w, g := &exp[k], &got[k]
				if fmt.Sprint(g.TraceAddress) != fmt.Sprint(w.addr) || g.Subtraces != w.sub {
					return violf("hybrid/flat-address", "invocation %d frame %d: trace address %v subtraces %d, expected %v / %d", top.Inv, k, g.TraceAddress, g.Subtraces, w.addr, w.sub)
				}
				if w.isAspect != (g.Action.Aspect != nil) {
					return violf("hybrid/flat-aspect", "invocation %d frame %d: aspect marker mismatch", top.Inv, k)
				}
				if k > 0 && g.Type != "suicide" && (g.Action.Gas == nil || uint64(*g.Action.Gas) != w.gas) {
					return violf("hybrid/flat-frame", "invocation %d frame %d: gas %v, expected %d", top.Inv, k, g.Action.Gas, w.gas)
				}
			}
		}
	}
	labels := []string{"tracer:" + ex.Tracer, "fork:" + sc.Fork}
	if multi {
		labels = append(labels, "several-aspects-on-one-join-point")
	}
	st.LabelN("aspect-executions", naspects)
	st.Case(sc.JSON(), multi, sc, labels...)
	return nil
}

func maxInt(a, b int) int {
	if a > b {
		return a
	}
	return b
}

func contains(s, sub string) bool {
	return len(sub) > 0 && len(s) >= len(sub) && (func() bool {
		for i := 0; i+len(sub) <= len(s); i++ {
			if s[i:i+len(sub)] == sub {
				return true
			}
		}
		return false
	})()
}

func genC19Hybrid(t *rapid.T) *Scenario {
	sc := GenTreeScenario(t, TreeCfg{MinFork: 8, MaxFork: 12, MaxInvs: 2, Budget: 7, EmptyData: 20, ValuePct: 30, LowGasPct: 10, NoSelfd: false, LogPct: 10})
	// up to three aspects per join point
	specs := []AspectSpec{{Burn: 0, End: "ok"}, {Burn: 10, End: "ok"}, {Burn: 1000, End: "ok"}, {Burn: 0, End: "ok"}, {Burn: 0, End: "trap"}, {Burn: 10, End: "revert"}}
	for _, a := range sc.Accounts {
		if len(a.Code) == 0 || !chance(t, 70, "bind") {
			continue
		}
		b := AspectBinding{Contract: a.Addr}
		for i, n := 0, uniform(t, 0, 3, "npre"); i < n; i++ {
			b.Pre = append(b.Pre, specs[uniform(t, 0, len(specs)-1, "prespec")])
		}
		for i, n := 0, uniform(t, 0, 3, "npost"); i < n; i++ {
			b.Post = append(b.Post, specs[uniform(t, 0, len(specs)-1, "postspec")])
		}
		if len(b.Pre)+len(b.Post) > 0 {
			sc.Bindings = append(sc.Bindings, b)
		}
	}
	ex := c19hExtra{Tracer: []string{"callTracer", "flatCallTracer"}[uniform(t, 0, 1, "tracer")], Cfg: map[string]bool{}}
	if ex.Tracer == "callTracer" {
		ex.Cfg["onlyTopCall"] = chance(t, 15, "onlyTopCall")
		ex.Cfg["withLog"] = rapid.Bool().Draw(t, "withLog")
	} else {
		ex.Cfg["convertParityErrors"] = rapid.Bool().Draw(t, "convertParityErrors")
		ex.Cfg["includePrecompiles"] = rapid.Bool().Draw(t, "includePrecompiles")
	}
	sc.Extra, _ = json.Marshal(ex)
	return sc
}

func TestC19Hybrid(t *testing.T) { runProp(t, "C19", genC19Hybrid, checkC19Hybrid) }
