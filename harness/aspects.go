package h

import (
	"context"
	"errors"
	"fmt"
	"sync"

	"github.com/artela-network/aspect-core/djpm"
	atypes "github.com/artela-network/aspect-core/types"
	wasmtime "github.com/bytecodealliance/wasmtime-go/v20"
	"github.com/ethereum/go-ethereum/common"
)

// ---------------------------------------------------------------------------
// Real WASM aspect doubles, generated from WAT text.

func aspectWAT(spec AspectSpec) string {
	imports := ""
	end := "(i32.const 0)"
	data := ""
	switch spec.End {
	case "", "ok":
	case "trap":
		end = "(unreachable)"
	case "revert":
		imports = `(import "util-api" "__UtilApi__.revert" (func $revert (param i32)))`
		// aspect-runtime string: i16 type=10 (string) LE, i32 length LE, bytes
		data = `(data (i32.const 16) "\0a\00\04\00\00\00nope")`
		end = "(call $revert (i32.const 16)) (unreachable)"
	default:
		panic("unknown aspect end " + spec.End)
	}
	return fmt.Sprintf(`(module
  %s
  (memory (export "memory") 16)
  %s
  (global $heap (mut i32) (i32.const 1024))
  (func (export "allocate") (param $n i32) (result i32)
    (local $p i32)
    (if (i32.gt_u (i32.add (global.get $heap) (local.get $n)) (i32.const 1000000))
      (then (global.set $heap (i32.const 1024))))
    (local.set $p (global.get $heap))
    (global.set $heap (i32.add (global.get $heap) (local.get $n)))
    (local.get $p))
  (func (export "__aspect_start__"))
  (func (export "execute") (param i32) (param i32) (result i32)
    (local $i i64)
    (block $done
      (loop $l
        (br_if $done (i64.ge_u (local.get $i) (i64.const %d)))
        (local.set $i (i64.add (local.get $i) (i64.const 1)))
        (br $l)))
    %s)
)`, imports, data, spec.Burn, end)
}

var (
	aspectCodeMu    sync.Mutex
	aspectCodeCache = map[AspectSpec][]byte{}
)

// AspectCode compiles (and caches) the WASM for a double.
func AspectCode(spec AspectSpec) []byte {
	if spec.End == "" {
		spec.End = "ok"
	}
	aspectCodeMu.Lock()
	defer aspectCodeMu.Unlock()
	if c, ok := aspectCodeCache[spec]; ok {
		return c
	}
	wasm, err := wasmtime.Wat2Wasm(aspectWAT(spec))
	if err != nil {
		panic(fmt.Sprintf("wat2wasm: %v", err))
	}
	aspectCodeCache[spec] = wasm
	return wasm
}

// AspectID gives a stable aspect address per spec and position.
func AspectID(contract common.Address, post bool, n int) common.Address {
	var a common.Address
	a[0] = 0xa5
	copy(a[1:], contract[10:])
	if post {
		a[18] = 1
	}
	a[19] = byte(n)
	return a
}

// ---------------------------------------------------------------------------
// Per-case join-point script, found through the context value.

type jpKeyT struct{}

var jpKey = jpKeyT{}

// JPScript is the per-case configuration and log of the provider double and of
// the host callbacks of the Artela precompiles.
type JPScript struct {
	mu       sync.Mutex
	Bindings map[common.Address]AspectBinding
	Faults   map[int]string
	// AspectAt makes the provider return these doubles at the n-th lookup
	// (fault injection at one firing position with a real aspect).
	AspectAt map[int][]AspectSpec
	Lookups  int
	Rec      *Recorder // lookup events are appended here (may be nil)

	// host callbacks of the precompiles
	HostCalls []HostCall
	// HostReply decides what a host callback returns.
	HostReply func(hc *HostCall) ([]byte, error)
}

type HostCall struct {
	Fn    string // getctx, setctx, jitsender
	Addr  common.Address
	Key   string
	Value []byte
	Hash  common.Hash
}

func NewJPScript(sc *Scenario, rec *Recorder) *JPScript {
	s := &JPScript{Bindings: map[common.Address]AspectBinding{}, Faults: map[int]string{}, Rec: rec}
	if sc != nil {
		for _, b := range sc.Bindings {
			s.Bindings[b.Contract] = b
		}
		for _, f := range sc.Faults {
			if f.Aspect != nil {
				if s.AspectAt == nil {
					s.AspectAt = map[int][]AspectSpec{}
				}
				s.AspectAt[f.Lookup] = append(s.AspectAt[f.Lookup], *f.Aspect)
				continue
			}
			s.Faults[f.Lookup] = f.Text
		}
	}
	return s
}

func WithJPScript(ctx context.Context, s *JPScript) context.Context {
	return context.WithValue(ctx, jpKey, s)
}

func scriptOf(ctx context.Context) *JPScript {
	if ctx == nil {
		return nil
	}
	s, _ := ctx.Value(jpKey).(*JPScript)
	return s
}

type providerDouble struct{}

func (providerDouble) GetTxBondAspects(ctx context.Context, contract common.Address, cut atypes.PointCut) ([]*atypes.AspectCode, error) {
	s := scriptOf(ctx)
	if s == nil {
		return nil, nil
	}
	s.mu.Lock()
	defer s.mu.Unlock()
	n := s.Lookups
	s.Lookups++
	if s.Rec != nil {
		s.Rec.add(Ev{K: EvLookup, To: contract, PointCut: string(cut), PC: uint64(n)})
	}
	if txt, ok := s.Faults[n]; ok {
		return nil, errors.New(txt)
	}
	if specs, ok := s.AspectAt[n]; ok {
		var out []*atypes.AspectCode
		for i, sp := range specs {
			out = append(out, &atypes.AspectCode{AspectId: AspectID(contract, cut == atypes.POST_CONTRACT_CALL_METHOD, 100+i).Hex(), Version: 1, Code: AspectCode(sp)})
		}
		return out, nil
	}
	b, ok := s.Bindings[contract]
	if !ok {
		return nil, nil
	}
	var specs []AspectSpec
	post := false
	switch cut {
	case atypes.PRE_CONTRACT_CALL_METHOD:
		specs = b.Pre
	case atypes.POST_CONTRACT_CALL_METHOD:
		specs = b.Post
		post = true
	}
	var out []*atypes.AspectCode
	for i, sp := range specs {
		out = append(out, &atypes.AspectCode{AspectId: AspectID(contract, post, i).Hex(), Version: 1, Code: AspectCode(sp)})
	}
	return out, nil
}

func (providerDouble) GetAccountVerifiers(context.Context, common.Address) ([]*atypes.AspectCode, error) {
	return nil, nil
}
func (providerDouble) GetLatestBlock() int64 { return scenBlockNumber }

var hostOnce sync.Once

// InitHost installs the process-global host pieces exactly once: provider
// double, runtime pool, commit flag and the precompile callbacks.
func InitHost() {
	hostOnce.Do(func() {
		djpm.NewAspect(providerDouble{}, atypes.NoOpsLogger{})
		atypes.InitRuntimePool(context.Background(), atypes.NoOpsLogger{}, 32, 32)
		atypes.IsCommit = func(ctx context.Context) bool { return true }
		atypes.GetAspectContext = func(ctx context.Context, aspectId common.Address, key string) ([]byte, error) {
			s := scriptOf(ctx)
			if s == nil {
				return nil, nil
			}
			hc := HostCall{Fn: "getctx", Addr: aspectId, Key: key}
			return s.host(&hc)
		}
		atypes.SetAspectContext = func(ctx context.Context, aspectId common.Address, key string, value []byte) error {
			s := scriptOf(ctx)
			if s == nil {
				return nil
			}
			hc := HostCall{Fn: "setctx", Addr: aspectId, Key: key, Value: append([]byte{}, value...)}
			_, err := s.host(&hc)
			return err
		}
		atypes.JITSenderAspectByContext = func(ctx context.Context, userOpHash common.Hash) (common.Address, error) {
			s := scriptOf(ctx)
			if s == nil {
				return common.Address{}, nil
			}
			hc := HostCall{Fn: "jitsender", Hash: userOpHash}
			b, err := s.host(&hc)
			return common.BytesToAddress(b), err
		}
	})
}

func (s *JPScript) host(hc *HostCall) ([]byte, error) {
	s.mu.Lock()
	defer s.mu.Unlock()
	s.HostCalls = append(s.HostCalls, *hc)
	if s.HostReply != nil {
		return s.HostReply(hc)
	}
	return nil, nil
}
