package h

import (
	"bytes"
	"encoding/json"
	"fmt"
	"math"
	"math/big"
	"sort"
	"strings"
	"testing"

	avm "github.com/artela-network/artela-evm/vm"
	"github.com/ethereum/go-ethereum/common"
	"github.com/ethereum/go-ethereum/core/state"
	"github.com/ethereum/go-ethereum/crypto"
	"pgregory.net/rapid"
)

// ---- C04: a failed frame leaves world state untouched --------------------------

var c04Slots = func() []common.Hash {
	var out []common.Hash
	for i := 0; i < 10; i++ {
		out = append(out, common.BigToHash(big.NewInt(int64(i))))
	}
	for i := 0x40; i < 0x50; i++ {
		out = append(out, common.BigToHash(big.NewInt(int64(i))))
	}
	return out
}()

type c04Extra struct {
	AspectFaults bool `json:"aspectFaults"` // also enumerate real aspect failures at every firing
	AllTexts     bool `json:"allTexts"`
}

// ---- world-state model rebuilt from the event log (trace replay) ----

type wsModel struct {
	bal     map[common.Address]*big.Int
	nonce   map[common.Address]uint64
	code    map[common.Address]common.Hash
	storage map[common.Address]map[common.Hash]common.Hash
	dead    map[common.Address]bool
	logs    []LogObs
}

func newWsModel(sc *Scenario) *wsModel {
	m := &wsModel{bal: map[common.Address]*big.Int{}, nonce: map[common.Address]uint64{}, code: map[common.Address]common.Hash{},
		storage: map[common.Address]map[common.Hash]common.Hash{}, dead: map[common.Address]bool{}}
	for _, a := range sc.Accounts {
		m.bal[a.Addr] = bigOf(a.Balance)
		m.nonce[a.Addr] = a.Nonce
		if len(a.Code) > 0 {
			m.code[a.Addr] = crypto.Keccak256Hash(a.Code)
		}
		m.storage[a.Addr] = map[common.Hash]common.Hash{}
		for k, v := range a.Storage {
			m.storage[a.Addr][k] = v
		}
	}
	return m
}

func (m *wsModel) balOf(a common.Address) *big.Int {
	if b, ok := m.bal[a]; ok {
		return b
	}
	b := new(big.Int)
	m.bal[a] = b
	return b
}

type wsEffect struct {
	owner *Frame // nil: transaction level
	apply func(m *wsModel)
	desc  string
}

func stepSucceeded(evs []Ev, i int) bool {
	e := &evs[i]
	if e.Err != "" {
		return false
	}
	if i+1 < len(evs) && evs[i+1].K == EvFault && evs[i+1].Depth == e.Depth && evs[i+1].PC == e.PC {
		return false
	}
	return true
}

// replayWorldState rebuilds the expected state after each invocation from the
// event log: effects of exactly those frames that ended without error and all
// of whose ancestors did.
func replayWorldState(sc *Scenario, evs []Ev, fl *FrameLog, m *wsModel, inv int) {
	eip158 := forkIndex(sc.Fork) >= 3
	var effects []wsEffect
	var pendingXfer []int
	in := false
	for i := range evs {
		e := &evs[i]
		if e.K == EvInvBegin {
			in = int(e.PC) == inv
			continue
		}
		if !in {
			continue
		}
		switch e.K {
		case EvTransfer:
			pendingXfer = append(pendingXfer, i)
		case EvCanTransfer:
			// nonce bump of the creator: CanTransfer at the top of create()
			isCreate := false
			for j := i - 1; j >= 0; j-- {
				if evs[j].K == EvStep {
					isCreate = evs[j].Op == CREATE || evs[j].Op == CREATE2
					break
				}
				if evs[j].K == EvInvBegin {
					k := sc.Invs[inv].Kind
					isCreate = k == "create" || k == "create2"
					break
				}
				if evs[j].K == EvTxStart {
					continue
				}
				break
			}
			if isCreate && e.Create { // e.Create carries the CanTransfer result
				from := e.From
				effects = append(effects, wsEffect{owner: fl.Owner[i], desc: "creator nonce", apply: func(m *wsModel) {
					if m.nonce[from] != math.MaxUint64 {
						m.nonce[from]++
					}
				}})
			}
		case EvStart, EvEnter:
			F := fl.Owner[i]
			for _, x := range pendingXfer {
				xe := &evs[x]
				from, to, v := xe.From, xe.To, new(big.Int).Set(xe.Value)
				effects = append(effects, wsEffect{owner: F, desc: "transfer", apply: func(m *wsModel) {
					m.balOf(from).Sub(m.balOf(from), v)
					m.balOf(to).Add(m.balOf(to), v)
				}})
			}
			pendingXfer = nil
			if F.Create {
				to := F.To
				effects = append(effects, wsEffect{owner: F, desc: "new account", apply: func(m *wsModel) {
					if eip158 {
						m.nonce[to] = 1
					}
					delete(m.dead, to)
				}})
			}
		case EvExit, EvEnd:
			F := fl.Owner[i]
			if F != nil && F.Create && e.Err == "" {
				to, out := F.To, append([]byte{}, e.Output...)
				effects = append(effects, wsEffect{owner: F, desc: "code deposit", apply: func(m *wsModel) {
					if len(out) > 0 {
						m.code[to] = crypto.Keccak256Hash(out)
					}
				}})
			}
		case EvStep:
			if !stepSucceeded(evs, i) {
				continue
			}
			F := fl.Owner[i]
			n := len(e.Stack)
			switch {
			case e.Op == SSTORE && n >= 2:
				addr, k, v := e.Addr, common.Hash(e.Stack[n-1].Bytes32()), common.Hash(e.Stack[n-2].Bytes32())
				effects = append(effects, wsEffect{owner: F, desc: "sstore", apply: func(m *wsModel) {
					if m.storage[addr] == nil {
						m.storage[addr] = map[common.Hash]common.Hash{}
					}
					m.storage[addr][k] = v
				}})
			case e.Op >= LOG0 && e.Op <= LOG4 && n >= 2+int(e.Op-LOG0):
				nt := int(e.Op - LOG0)
				l := LogObs{Addr: e.Addr}
				off, size := e.Stack[n-1].Uint64(), e.Stack[n-2].Uint64()
				l.Data = memWindow(e.Mem, off, size)
				for t := 0; t < nt; t++ {
					l.Topics = append(l.Topics, common.Hash(e.Stack[n-3-t].Bytes32()))
				}
				effects = append(effects, wsEffect{owner: F, desc: "log", apply: func(m *wsModel) { m.logs = append(m.logs, l) }})
			case e.Op == SELFDESTRUCT && n >= 1:
				addr, ben := e.Addr, common.Address(e.Stack[n-1].Bytes20())
				effects = append(effects, wsEffect{owner: F, desc: "selfdestruct", apply: func(m *wsModel) {
					b := new(big.Int).Set(m.balOf(addr))
					m.balOf(addr).SetInt64(0)
					if ben != addr {
						m.balOf(ben).Add(m.balOf(ben), b)
					}
					m.dead[addr] = true
				}})
			}
		}
	}
	m.logs = nil
	for _, ef := range effects {
		if ef.owner == nil || ef.owner.AllOK() {
			ef.apply(m)
		}
	}
	// end of transaction: self-destructed accounts disappear
	for a := range m.dead {
		m.bal[a] = new(big.Int)
		m.nonce[a] = 0
		delete(m.code, a)
		m.storage[a] = map[common.Hash]common.Hash{}
	}
	m.dead = map[common.Address]bool{}
	// EIP-161: an account that is empty at the end of the transaction (no nonce, no
	// balance, no code) is deleted together with whatever storage was written under
	// its address (e.g. by a top-level CALLCODE/DELEGATECALL whose caller account
	// was destroyed earlier)
	if eip158 {
		for a, st := range m.storage {
			if len(st) > 0 && m.nonce[a] == 0 && m.balOf(a).Sign() == 0 && m.code[a] == (common.Hash{}) {
				m.storage[a] = map[common.Hash]common.Hash{}
			}
		}
	}
}

// snapshot renders the model in the shape of the executor's account observation.
func (m *wsModel) snapshot(addrs []common.Address, slots []common.Hash) map[common.Address]AcctObs {
	out := map[common.Address]AcctObs{}
	for _, a := range addrs {
		o := AcctObs{Balance: m.balOf(a).String(), Nonce: m.nonce[a], CodeHash: m.code[a]}
		for _, s := range slots {
			if v := m.storage[a][s]; v != (common.Hash{}) {
				if o.Storage == nil {
					o.Storage = map[common.Hash]common.Hash{}
				}
				o.Storage[s] = v
			}
		}
		out[a] = o
	}
	return out
}

func diffAccts(real, want map[common.Address]AcctObs, addrs []common.Address) string {
	var sb strings.Builder
	for _, a := range addrs {
		r, w := real[a], want[a]
		if r.Balance == "" {
			r.Balance = "0"
		}
		if r.Balance != w.Balance {
			fmt.Fprintf(&sb, "balance of %x: real %s, expected %s\n", a, r.Balance, w.Balance)
		}
		if r.Nonce != w.Nonce {
			fmt.Fprintf(&sb, "nonce of %x: real %d, expected %d\n", a, r.Nonce, w.Nonce)
		}
		if r.CodeHash != w.CodeHash {
			fmt.Fprintf(&sb, "code hash of %x: real %x, expected %x\n", a, r.CodeHash, w.CodeHash)
		}
		if fmt.Sprint(r.Storage) != fmt.Sprint(w.Storage) {
			fmt.Fprintf(&sb, "storage of %x: real %v, expected %v\n", a, r.Storage, w.Storage)
		}
	}
	return sb.String()
}

func (m *wsModel) diff(st *state.StateDB, addrs []common.Address, slots []common.Hash) string {
	var sb strings.Builder
	for _, a := range addrs {
		if got, want := st.GetBalance(a), m.balOf(a); got.Cmp(want) != 0 {
			fmt.Fprintf(&sb, "balance of %x: real %s, expected %s\n", a, got, want)
		}
		if got, want := st.GetNonce(a), m.nonce[a]; got != want {
			fmt.Fprintf(&sb, "nonce of %x: real %d, expected %d\n", a, got, want)
		}
		got := st.GetCodeHash(a)
		if got == crypto.Keccak256Hash(nil) {
			got = common.Hash{}
		}
		if want := m.code[a]; got != want {
			fmt.Fprintf(&sb, "code hash of %x: real %x, expected %x\n", a, got, want)
		}
		for _, s := range slots {
			if got, want := st.GetState(a, s), m.storage[a][s]; got != want {
				fmt.Fprintf(&sb, "storage %x[%x]: real %x, expected %x\n", a, s[28:], got, want)
			}
		}
	}
	return sb.String()
}

// ---- one run with the entry/exit digest history invariant ----

type c04Run struct {
	an     *jpAnalysis
	states []string // expected-vs-real diff per invocation (trace replay), "" = equal
	viol   *Violation
	addrs  []common.Address
}

func c04Universe(sc *Scenario, fl *FrameLog) []common.Address {
	m := map[common.Address]bool{}
	for _, a := range sc.Universe() {
		m[a] = true
	}
	if fl != nil {
		for _, f := range fl.Frames {
			m[f.To] = true
			m[f.From] = true
		}
	}
	m[NoAddr], m[EOA2Addr] = true, true
	out := make([]common.Address, 0, len(m))
	for a := range m {
		out = append(out, a)
	}
	sort.Slice(out, func(i, j int) bool { return bytes.Compare(out[i][:], out[j][:]) < 0 })
	return out
}

// runC04 executes the scenario and checks oracle 1 (history invariant) and
// oracle 2 (trace replay) on it.
func runC04(sc *Scenario, addrs []common.Address, tag string) *c04Run {
	out := &c04Run{addrs: addrs}
	var stRef *state.StateDB
	var recRef *Recorder
	digest := func(st *state.StateDB) string { return Digest(st, st.Logs(), addrs, c04Slots) }
	model := newWsModel(sc)
	var replayDiffs []string
	var expected []map[common.Address]AcctObs
	opt := ArtelaOpts{
		ExtraAddrs: addrs,
		Slots:      c04Slots,
		DigestAt:   digest,
		OnEVM: func(evm *avm.EVM, st *state.StateDB) {
			stRef = st
		},
	}
	rec := NewRecorder()
	rec.KeepMem = true
	rec.Hook = func(e *Ev) {
		if stRef == nil {
			return
		}
		switch e.K {
		case EvEnter, EvExit, EvEnd, EvStart:
			e.Digest = digest(stRef)
		}
	}
	recRef = rec
	opt.Debug = true
	opt.Rec = rec
	opt.AfterInv = func(i int, evm *avm.EVM, st *state.StateDB, obs *Obs) {
		// trace replay needs the frame tree of the events so far
		fl, err := BuildFrames(recRef.Evs)
		if err != nil {
			replayDiffs = append(replayDiffs, "unbalanced: "+err.Error())
			return
		}
		replayWorldState(sc, recRef.Evs, fl, model, i)
		// compare logs of this invocation
		d := ""
		real := st.GetLogs(txHash(i), scenBlockNumber, common.Hash{})
		if len(real) != len(model.logs) {
			d += fmt.Sprintf("logs: real %d, expected %d\n", len(real), len(model.logs))
		} else {
			for k := range real {
				if (LogObs{Addr: real[k].Address, Topics: real[k].Topics, Data: real[k].Data}).String() != model.logs[k].String() {
					d += fmt.Sprintf("log %d differs\n", k)
				}
			}
		}
		// the state itself is compared after the run, against the accounts observed
		// after the executor finalised the transaction
		expected = append(expected, model.snapshot(addrs, c04Slots))
		replayDiffs = append(replayDiffs, d)
	}
	art := RunArtela(sc, opt)
	for i := range art.Obs {
		if art.Obs[i].Panic != "" {
			out.viol = violf("panic", "%s: panic in invocation %d: %s", tag, i, art.Obs[i].Panic)
			return out
		}
	}
	fl, err := BuildFrames(rec.Evs)
	if err != nil {
		out.viol = violf("harness/unbalanced", "%s: %v", tag, err)
		return out
	}
	an := &jpAnalysis{art: art, fl: fl, byFrame: map[*Frame]*Attempt{}}
	an.attempts = BuildAllAttempts(sc, rec.Evs, fl, art.Obs)
	for _, a := range an.attempts {
		if a.Frame != nil {
			an.byFrame[a.Frame] = a
		}
	}
	for i := range expected {
		if i < len(art.Obs) && i < len(replayDiffs) {
			replayDiffs[i] += diffAccts(art.Obs[i].Accts, expected[i], addrs)
		}
	}
	out.an = an
	out.states = replayDiffs
	evs := rec.Evs
	// oracle 1: entry digest == exit digest for every failed frame
	for _, F := range fl.Frames {
		if F.Err == "" || F.CloseEv < 0 {
			continue
		}
		entry, bump := "", false
		switch {
		case F.Create:
			// entry point: CanTransfer at the top of create(); the creator's nonce bump
			// is not part of the frame's revertible effects
			for j := F.OpenEv - 1; j >= 0; j-- {
				if evs[j].K == EvCanTransfer {
					entry = evs[j].Digest
					bump = true
					break
				}
				if evs[j].K == EvTransfer {
					continue
				}
				break
			}
		case F.Kind == CALL:
			if x := transferBefore(evs, F); x != nil {
				entry = x.Digest
			} else {
				entry = evs[F.OpenEv].Digest
			}
		default:
			entry = evs[F.OpenEv].Digest
		}
		exit := evs[F.CloseEv].Digest
		if bump {
			// compare modulo the creator's nonce: re-render entry with nonce+1
			entry = bumpNonceInDigest(entry, F.From)
		}
		if entry != exit {
			out.viol = violf("frame-not-rolled-back", "%s: frame #%d (kind %02x, to %x, err %q) ended in error but world state differs from its entry state\n--- at entry\n%s\n--- at exit\n%s",
				tag, F.Idx, F.Kind, F.To, F.Err, entry, exit)
			return out
		}
		if a := an.byFrame[F]; a != nil && !a.Failed && !(F.Create && F.Err == "contract creation code storage out of gas") {
			out.viol = violf("caller-saw-success", "%s: frame #%d ended with %q but its caller observed success", tag, F.Idx, F.Err)
			return out
		}
	}
	// oracle 2: trace replay
	for i, d := range replayDiffs {
		if d != "" {
			out.viol = violf("state-vs-replay", "%s: after invocation %d the world state differs from the replay of the effects of the frames that succeeded\n%s", tag, i, d)
			return out
		}
	}
	return out
}

// bumpNonceInDigest re-renders a digest with the nonce of addr incremented.
func bumpNonceInDigest(d string, a common.Address) string {
	lines := strings.Split(d, "\n")
	prefix := fmt.Sprintf("%x:", a)
	for i, l := range lines {
		if strings.HasPrefix(l, prefix) {
			// format: "<addr>:b=<bal>,n=<nonce>,c=..."
			p := strings.Index(l, ",n=")
			q := strings.Index(l[p+3:], ",")
			var n uint64
			fmt.Sscanf(l[p+3:p+3+q], "%d", &n)
			if n != math.MaxUint64 {
				n++
			}
			lines[i] = fmt.Sprintf("%s,n=%d%s", l[:p], n, l[p+3+q:])
		}
	}
	return strings.Join(lines, "\n")
}

func checkC04(sc *Scenario, st *Stats) *Violation {
	var ex c04Extra
	if len(sc.Extra) > 0 {
		_ = json.Unmarshal(sc.Extra, &ex)
	}
	base := sc.Clone()
	base.Faults = nil
	// discovery run: addresses and number of join-point firings
	disc := RunArtela(base, ArtelaOpts{Debug: true})
	for i := range disc.Obs {
		if disc.Obs[i].Panic != "" {
			return violf("panic", "invocation %d: the VM panicked: %.1500s", i, disc.Obs[i].Panic)
		}
	}
	dfl, err := BuildFrames(disc.Rec.Evs)
	if err != nil {
		st.Exclude("unbalanced(C18)")
		return nil
	}
	addrs := c04Universe(base, dfl)
	nLook := NewJPLookupCount(disc.Rec)

	r0 := runC04(base, addrs, "no injected fault")
	if r0.viol != nil {
		return r0.viol
	}
	// harness self-check: the reference implementation agrees on the fault-free run
	up := RunUpstream(base, UpOpts{})
	selfOK := true
	for i := range up.Obs {
		if up.Obs[i].Panic != "" || up.Obs[i].Root != r0.an.art.Obs[i].Root {
			selfOK = false
		}
	}
	if !selfOK {
		st.Label("upstream-disagrees(C01)")
	}
	// oracle 3 (metamorphic): succeeding aspects everywhere == join points off
	jpoff := false
	off := RunArtela(base, ArtelaOpts{JPOverride: &jpoff, Debug: len(sc.Bindings) > 0})
	if len(sc.Bindings) > 0 {
		bound := base.Clone()
		bound.Bindings = sc.Bindings
		br := RunArtela(bound, ArtelaOpts{Debug: true})
		// Aspect executions cost gas, so the relation only holds where gas is not data:
		// same control flow, and no value that differs between the two runs (i.e. that
		// derives from the GAS instruction) reaches anything but the gas argument of a call
		sameFlow := flowOf(br.Rec.Evs) == flowOf(disc.Rec.Evs) && flowOf(br.Rec.Evs) == flowOf(off.Rec.Evs)
		for i := range br.Rec.Evs {
			// "succeeding Aspects" is the premise: one that runs out of the little gas a
			// frame has left fails the frame, as it must
			if e := &br.Rec.Evs[i]; e.K == EvAspectExit && e.Err != "" {
				sameFlow = false
				st.Label("metamorphic-aspects-skipped(aspect-failed)")
				break
			}
		}
		if sameFlow && gasReachesData(sc.Fork, br.Rec.Evs, off.Rec.Evs) {
			sameFlow = false
			st.Label("metamorphic-aspects-skipped(gas-is-data)")
		}
		if sameFlow {
			for i := range br.Obs {
				a, b := br.Obs[i], off.Obs[i]
				if a.Root != b.Root || !bytes.Equal(a.Ret, b.Ret) || a.ErrClass() != b.ErrClass() || fmt.Sprint(a.Logs) != fmt.Sprint(b.Logs) {
					return violf("metamorphic-aspects", "invocation %d: with succeeding aspects bound the outcome differs from join points off\n bound: %s\n off:   %s", i, a.Outcome(), b.Outcome())
				}
			}
			st.Label("metamorphic-aspects-compared")
		}
	} else {
		for i := range off.Obs {
			if off.Obs[i].Root != r0.an.art.Obs[i].Root {
				return violf("metamorphic-jpoff", "invocation %d: state root with join points on (nothing bound) differs from join points off", i)
			}
		}
	}

	// fault enumeration: every firing position in turn
	texts := []string{"injected provider failure", "out of gas", "execution reverted"}
	runs := 0
	for k := 0; k < nLook; k++ {
		tl := []string{texts[k%3]}
		if ex.AllTexts {
			tl = texts
		}
		for _, txt := range tl {
			f := base.Clone()
			f.Faults = []Fault{{Lookup: k, Text: txt}}
			r := runC04(f, addrs, fmt.Sprintf("provider failure %q at join-point firing %d", txt, k))
			runs++
			if r.viol != nil {
				return r.viol
			}
		}
		if ex.AspectFaults {
			for _, sp := range []AspectSpec{{Burn: 0, End: "trap"}, {Burn: 1000000000, End: "ok"}, {Burn: 10, End: "revert"}} {
				f := base.Clone()
				spc := sp
				f.Faults = []Fault{{Lookup: k, Aspect: &spc}}
				r := runC04(f, addrs, fmt.Sprintf("aspect %+v at join-point firing %d", sp, k))
				runs++
				if r.viol != nil {
					return r.viol
				}
			}
		}
	}
	// classification on the fault-free run plus what the faults produced
	nontrivial := false
	fl := r0.an.fl
	for _, F := range fl.Frames {
		if F.Err == "" || F.Parent == nil {
			continue
		}
		if F.Value != nil && F.Value.Sign() > 0 && F.First >= 0 {
			// did the caller continue with a later effect?
			for j := F.CloseEv; j <= F.Parent.Last && j >= 0; j++ {
				e := &r0.an.art.Rec.Evs[j]
				if e.K == EvStep && e.Depth == F.Parent.Depth+1 && (e.Op == SSTORE || (e.Op >= LOG0 && e.Op <= LOG4)) {
					nontrivial = true
				}
			}
		}
	}
	labels := []string{"fork:" + sc.Fork}
	if nLook > 0 {
		labels = append(labels, "has-firings")
		nontrivial = nontrivial || nLook >= 2
	}
	if ex.AspectFaults {
		labels = append(labels, "aspect-faults-enumerated")
	}
	st.LabelN("fault-runs", runs)
	st.LabelN("firing-positions", nLook)
	st.Case(sc.JSON(), nontrivial, sc, labels...)
	return nil
}

// gasReachesData compares two runs with equal control flow step by step: a stack
// value that differs between them is gas-derived; it may be moved and combined
// (DUP/SWAP/POP/arithmetic/comparison/jump condition - the flow is known to be
// equal) and be the gas argument of a call, but as soon as it is an operand of
// anything else (stores, memory, logs, return data, call value/address/windows,
// create, hashing) the world states may legitimately differ.
func gasReachesData(fork string, a, b []Ev) bool {
	tab := OpTableFor(fork, nil)
	var sa, sb []*Ev
	for i := range a {
		if a[i].K == EvStep {
			sa = append(sa, &a[i])
		}
	}
	for i := range b {
		if b[i].K == EvStep {
			sb = append(sb, &b[i])
		}
	}
	if len(sa) != len(sb) {
		return true
	}
	for i := range sa {
		x, y := sa[i], sb[i]
		if len(x.Stack) != len(y.Stack) {
			return true
		}
		op := x.Op
		pops := tab[op].Pops
		n := len(x.Stack)
		for k := 0; k < pops && k < n; k++ {
			if x.Stack[n-1-k].Eq(&y.Stack[n-1-k]) {
				continue
			}
			switch {
			case op == POP || (op >= DUP1 && op <= SWAP16) || op == JUMPI || op == JUMP:
			case op >= 0x01 && op <= 0x1d: // arithmetic, comparison, bitwise
			case (op == CALL || op == CALLCODE || op == DELEGATECALL || op == STATICCALL) && k == 0:
			default:
				return true
			}
		}
		// DUPn / SWAPn reach below their nominal operands but only move values
	}
	return false
}

func flowOf(evs []Ev) string {
	var sb strings.Builder
	for i := range evs {
		e := &evs[i]
		if e.K == EvStep || e.K == EvFault {
			// a step that could not be paid for is announced like any other step, with the
			// error attached: it is part of the control flow
			fmt.Fprintf(&sb, "%d/%d/%02x/%v;", e.Depth, e.PC, e.Op, e.Err != "")
		}
	}
	return sb.String()
}

func genC04(t *rapid.T) *Scenario {
	sc := GenTreeScenario(t, TreeCfg{MaxInvs: 2, Budget: 8, EmptyData: 15, ValuePct: 60, LowGasPct: 10, AllKinds: true})
	ex := c04Extra{AspectFaults: chance(t, 12, "aspectfaults"), AllTexts: tierIsThorough()}
	if chance(t, 30, "okaspects") {
		bindAspects(t, sc, []AspectSpec{{Burn: 0, End: "ok"}, {Burn: 10, End: "ok"}}, 70)
	}
	sc.Extra, _ = json.Marshal(ex)
	return sc
}

func TestC04(t *testing.T)       { runProp(t, "C04", genC04, checkC04) }
func TestC04Replay(t *testing.T) { replayProp(t, "C04", checkC04) }
