package h

import (
	"bytes"
	"encoding/json"
	"fmt"
	"math/big"
	"sort"
	"testing"

	atracers "github.com/artela-network/artela-evm/tracers"
	alogger "github.com/artela-network/artela-evm/tracers/logger"
	_ "github.com/artela-network/artela-evm/tracers/native"
	avm "github.com/artela-network/artela-evm/vm"
	"github.com/ethereum/go-ethereum/common"
	"github.com/ethereum/go-ethereum/core/types"
	uvm "github.com/ethereum/go-ethereum/core/vm"
	utracers "github.com/ethereum/go-ethereum/eth/tracers"
	ulogger "github.com/ethereum/go-ethereum/eth/tracers/logger"
	_ "github.com/ethereum/go-ethereum/eth/tracers/native"
	"pgregory.net/rapid"
)

// ---- C18: debug-tracer stream and inherited tracers -------------------------

type c18Extra struct {
	Tracer string          `json:"tracer"` // struct, access, callTracer, flatCallTracer, prestateTracer, 4byteTracer
	Cfg    json.RawMessage `json:"cfg,omitempty"`
	SL     struct {
		EnableMemory     bool `json:"enableMemory"`
		DisableStack     bool `json:"disableStack"`
		DisableStorage   bool `json:"disableStorage"`
		EnableReturnData bool `json:"enableReturnData"`
		Limit            int  `json:"limit"`
	} `json:"sl"`
	// JP failure injection for clause (c): provider faults at these lookup indices
	FaultAt []int `json:"faultAt,omitempty"`
}

func sortedAccessList(al types.AccessList) string {
	var items []string
	for _, t := range al {
		keys := make([]string, 0, len(t.StorageKeys))
		for _, k := range t.StorageKeys {
			keys = append(keys, k.Hex())
		}
		sort.Strings(keys)
		items = append(items, fmt.Sprintf("%x:%v", t.Address, keys))
	}
	sort.Strings(items)
	return fmt.Sprint(items)
}

func tracerCtx(i int) (*atracers.Context, *utracers.Context) {
	bh := common.HexToHash("0xb10c")
	return &atracers.Context{BlockHash: bh, BlockNumber: big.NewInt(scenBlockNumber), TxIndex: i, TxHash: txHash(i)},
		&utracers.Context{BlockHash: bh, BlockNumber: big.NewInt(scenBlockNumber), TxIndex: i, TxHash: txHash(i)}
}

// checkBalanced verifies that start/end, enter/exit and txstart/txend events of
// an Artela stream are balanced and LIFO (clause c).
func checkBalanced(rec *Recorder) string {
	var stack []EvKind // open frames: EvStart or EvEnter
	inTx := false
	for i := range rec.Evs {
		e := &rec.Evs[i]
		switch e.K {
		case EvTxStart:
			if inTx || len(stack) != 0 {
				return fmt.Sprintf("event %d: txstart inside tx", i)
			}
			inTx = true
		case EvTxEnd:
			if !inTx || len(stack) != 0 {
				return fmt.Sprintf("event %d: txend with %d open frames", i, len(stack))
			}
			inTx = false
		case EvStart:
			if len(stack) != 0 {
				return fmt.Sprintf("event %d: CaptureStart with %d open frames", i, len(stack))
			}
			stack = append(stack, EvStart)
		case EvEnter:
			stack = append(stack, EvEnter)
		case EvEnd:
			if len(stack) != 1 || stack[0] != EvStart {
				return fmt.Sprintf("event %d: CaptureEnd does not close the top frame (open=%v)", i, stack)
			}
			stack = stack[:0]
		case EvExit:
			if len(stack) == 0 || stack[len(stack)-1] != EvEnter {
				return fmt.Sprintf("event %d: CaptureExit without matching enter (open=%v)", i, stack)
			}
			stack = stack[:len(stack)-1]
		case EvStep, EvFault:
			if e.Depth != len(stack) {
				return fmt.Sprintf("event %d: step reports depth %d but %d frames are open", i, e.Depth, len(stack))
			}
		case EvInvEnd:
			if len(stack) != 0 {
				return fmt.Sprintf("event %d: invocation returned with open frames %v", i, stack)
			}
		}
	}
	return ""
}

func checkC18(sc *Scenario, st *Stats) *Violation {
	var ex c18Extra
	if len(sc.Extra) > 0 {
		_ = json.Unmarshal(sc.Extra, &ex)
	}
	// A struct logger that keeps a memory image per step holds steps x memory bytes
	// (hex encoded twice over for the comparison): gigabytes for a loop over a few
	// hundred KB of memory. Both loggers get the same cap on captured steps then.
	if ex.SL.EnableMemory && (ex.SL.Limit == 0 || ex.SL.Limit > 64) {
		ex.SL.Limit = 64
	}
	// the scenario's own faults are only used by clause (c)
	base := sc.Clone()
	base.Faults = nil

	var aRes, uRes []string
	type resulter interface {
		GetResult() (json.RawMessage, error)
	}
	var aCur, uCur interface{}
	flush := func(cur interface{}, out *[]string) {
		if cur == nil {
			return
		}
		switch t := cur.(type) {
		case *alogger.AccessListTracer:
			*out = append(*out, sortedAccessList(t.AccessList()))
		case *ulogger.AccessListTracer:
			*out = append(*out, sortedAccessList(t.AccessList()))
		case *alogger.StructLogger:
			b, _ := json.Marshal(t.StructLogs())
			r, err := t.GetResult()
			*out = append(*out, fmt.Sprintf("logs=%s out=%x err=%v result=%s/%v", b, t.Output(), t.Error(), r, err))
		case *ulogger.StructLogger:
			b, _ := json.Marshal(t.StructLogs())
			r, err := t.GetResult()
			*out = append(*out, fmt.Sprintf("logs=%s out=%x err=%v result=%s/%v", b, t.Output(), t.Error(), r, err))
		case resulter:
			r, err := t.GetResult()
			*out = append(*out, fmt.Sprintf("%s/%v", r, err))
		}
	}
	slcfgA := &alogger.Config{EnableMemory: ex.SL.EnableMemory, DisableStack: ex.SL.DisableStack, DisableStorage: ex.SL.DisableStorage, EnableReturnData: ex.SL.EnableReturnData, Limit: ex.SL.Limit}
	slcfgU := &ulogger.Config{EnableMemory: ex.SL.EnableMemory, DisableStack: ex.SL.DisableStack, DisableStorage: ex.SL.DisableStorage, EnableReturnData: ex.SL.EnableReturnData, Limit: ex.SL.Limit}

	up := RunUpstream(base, UpOpts{Debug: true, InnerFor: func(i int, evm *uvm.EVM, inv *Invocation) uvm.EVMLogger {
		flush(uCur, &uRes)
		uCur = nil
		_, uctx := tracerCtx(i)
		switch ex.Tracer {
		case "struct":
			l := ulogger.NewStructLogger(slcfgU)
			uCur = l
			return l
		case "access":
			rules := evm.ChainConfig().Rules(evm.Context.BlockNumber, evm.Context.Random != nil, evm.Context.Time)
			l := ulogger.NewAccessListTracer(nil, inv.Caller, inv.To, uvm.ActivePrecompiles(rules))
			uCur = l
			return l
		case "":
			return nil
		default:
			tr, err := utracers.DefaultDirectory.New(ex.Tracer, uctx, ex.Cfg)
			if err != nil {
				panic(err)
			}
			uCur = tr
			return tr
		}
	}})
	flush(uCur, &uRes)
	for i := range up.Obs {
		if up.Obs[i].Panic != "" {
			if dbgHook != nil {
				dbgHook(up.Obs[i].Panic)
			}
			st.Exclude("upstream-panic")
			return nil
		}
	}
	if why := outOfStandardDomain(base, up.Rec); why != "" {
		st.Exclude(why)
		return nil
	}
	art := RunArtela(base, ArtelaOpts{Debug: true, InnerFor: func(i int, evm *avm.EVM, inv *Invocation) avm.EVMLogger {
		flush(aCur, &aRes)
		aCur = nil
		actx, _ := tracerCtx(i)
		switch ex.Tracer {
		case "struct":
			l := alogger.NewStructLogger(slcfgA)
			aCur = l
			return l
		case "access":
			rules := evm.ChainConfig().Rules(evm.Context.BlockNumber, evm.Context.Random != nil, evm.Context.Time)
			l := alogger.NewAccessListTracer(nil, inv.Caller, inv.To, avm.ActivePrecompiles(rules))
			aCur = l
			return l
		case "":
			return nil
		default:
			tr, err := atracers.DefaultDirectory.New(ex.Tracer, actx, ex.Cfg)
			if err != nil {
				panic(err)
			}
			aCur = tr
			return tr
		}
	}})
	flush(aCur, &aRes)
	if v := compareObs("C18", "outcome", art.Obs, up.Obs); v != nil {
		return v
	}
	// (a) callback sequences with all arguments
	if d := compareStreams(art.Rec, up.Rec, (*Ev).Key); d != "" {
		return violf("stream", "%s", d)
	}
	// (b) paired tracers
	if len(aRes) != len(uRes) {
		return violf("tracer/"+ex.Tracer, "result count %d vs %d", len(aRes), len(uRes))
	}
	for i := range aRes {
		if aRes[i] != uRes[i] {
			return violf("tracer/"+ex.Tracer, "invocation %d: tracer %s cfg=%s output differs\n artela:   %.3000s\n upstream: %.3000s", i, ex.Tracer, ex.Cfg, aRes[i], uRes[i])
		}
	}
	// (c) balance under join-point failures (Artela only)
	if d := checkBalanced(art.Rec); d != "" {
		return violf("balance", "%s", d)
	}
	faulted := false
	if len(ex.FaultAt) > 0 {
		fsc := base.Clone()
		for i := range fsc.Invs {
			fsc.Invs[i].JP = true
		}
		for _, f := range ex.FaultAt {
			fsc.Faults = append(fsc.Faults, Fault{Lookup: f, Text: "injected provider failure"})
		}
		fr := RunArtela(fsc, ArtelaOpts{Debug: true})
		for i := range fr.Obs {
			if fr.Obs[i].Panic != "" {
				return violf("balance/panic", "panic with injected join-point failure: %s", fr.Obs[i].Panic)
			}
		}
		if d := checkBalanced(fr.Rec); d != "" {
			return violf("balance/jp-failure", "with provider faults at lookups %v: %s", ex.FaultAt, d)
		}
		for _, f := range ex.FaultAt {
			if f < NewJPLookupCount(fr.Rec) {
				faulted = true
			}
		}
	}

	nested, fault := false, false
	for i := range up.Rec.Evs {
		e := &up.Rec.Evs[i]
		if e.K == EvEnter {
			nested = true
		}
		if (e.K == EvExit || e.K == EvEnd || e.K == EvFault) && e.Err != "" {
			fault = true
		}
	}
	nontrivial := nested && fault
	labels := []string{"fork:" + sc.Fork, "tracer:" + ex.Tracer}
	if faulted {
		labels = append(labels, "jp-fault-hit")
	}
	if nested {
		labels = append(labels, "nested")
	}
	if fault {
		labels = append(labels, "fault-or-revert")
	}
	st.LabelN("steps", up.Rec.Steps)
	st.Case(sc.JSON(), nontrivial, sc, labels...)
	return nil
}

// NewJPLookupCount counts provider lookups recorded in a stream.
func NewJPLookupCount(rec *Recorder) int {
	n := 0
	for i := range rec.Evs {
		if rec.Evs[i].K == EvLookup {
			n++
		}
	}
	return n
}

func genC18(t *rapid.T) *Scenario {
	var sc *Scenario
	if chance(t, 35, "c18tree") {
		// log-heavy nested trees: logs several levels below frames that fail later
		sc = GenTreeScenario(t, TreeCfg{MinFork: 4, MaxFork: 11, MaxInvs: 2, Budget: 12, EmptyData: 15, ValuePct: 30, LowGasPct: 10, LogPct: 30})
	} else {
		sc = genStandard(t)
	}
	var ex c18Extra
	// the two call tracers are the files the fork modified: they get more weight
	ex.Tracer = []string{"callTracer", "callTracer", "callTracer", "flatCallTracer", "flatCallTracer", "struct", "prestateTracer", "4byteTracer", "access", ""}[uniform(t, 0, 9, "tracer")]
	cfg := map[string]bool{}
	switch ex.Tracer {
	case "callTracer":
		cfg["onlyTopCall"] = rapid.Bool().Draw(t, "onlyTopCall")
		cfg["withLog"] = chance(t, 70, "withLog")
	case "flatCallTracer":
		cfg["convertParityErrors"] = rapid.Bool().Draw(t, "convertParityErrors")
		cfg["includePrecompiles"] = rapid.Bool().Draw(t, "includePrecompiles")
	case "prestateTracer":
		cfg["diffMode"] = rapid.Bool().Draw(t, "diffMode")
	case "struct":
		ex.SL.EnableMemory = rapid.Bool().Draw(t, "slmem")
		ex.SL.DisableStack = rapid.Bool().Draw(t, "slstack")
		ex.SL.DisableStorage = rapid.Bool().Draw(t, "slstorage")
		ex.SL.EnableReturnData = rapid.Bool().Draw(t, "slrd")
		if chance(t, 30, "sllimit") {
			ex.SL.Limit = rapid.IntRange(1, 40).Draw(t, "sllimitv")
		}
	}
	if len(cfg) > 0 {
		ex.Cfg, _ = json.Marshal(cfg)
	}
	if ex.Tracer != "" {
		// The inherited tracers take their environment from CaptureStart, which only
		// the call / create entry points emit at depth 0 (upstream's own tracers
		// dereference nil when driven through a top-level CALLCODE / DELEGATECALL /
		// STATICCALL): real hosts trace transactions, i.e. call or create.
		for i := range sc.Invs {
			switch sc.Invs[i].Kind {
			case "callcode", "delegatecall", "staticcall":
				sc.Invs[i].Kind = "call"
			}
		}
	}
	if chance(t, 60, "faults") {
		n := rapid.IntRange(1, 2).Draw(t, "nfaults")
		for i := 0; i < n; i++ {
			ex.FaultAt = append(ex.FaultAt, rapid.IntRange(0, 12).Draw(t, "faultat"))
		}
	}
	sc.Extra, _ = json.Marshal(ex)
	return sc
}

func TestC18(t *testing.T)       { runProp(t, "C18", genC18, checkC18) }
func TestC18Replay(t *testing.T) { replayProp(t, "C18", checkC18) }

var _ = bytes.Equal

var dbgHook func(string)
