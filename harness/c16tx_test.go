package h

import (
	"encoding/json"
	"fmt"
	"strings"
	"testing"

	"github.com/ethereum/go-ethereum/common"
	"github.com/ethereum/go-ethereum/common/hexutil"
	"pgregory.net/rapid"
)

// ---- C16, second stage: ANY transaction (not only journal scripts) repeated on
// equal pre-state, in fresh EVMs, with unrelated executions on other EVMs in
// between. Everything observable - outcome, post-state, logs, call tree, journal
// views, and what reached the host through the Artela precompiles - has to be
// identical in every repetition. The unrelated execution is chosen to exercise
// whatever process-level state an EVM could share with another one: the
// package-level precompile instances (context-carrying 0x64-0x66 reached by CALL
// vs. the other call kinds), per-fork instruction sets (same fork, other extra
// EIPs), the runtime pool of Aspects.

type c16TxExtra struct {
	Reps      int           `json:"reps"`
	Other     *Scenario     `json:"other,omitempty"`
	HostValue hexutil.Bytes `json:"hostValue"`
	Family    string        `json:"family"`
}

func c16TxRun(sc *Scenario, debug bool, hostValue []byte) (*ArtelaRun, *JPScript) {
	rec := NewRecorder()
	script := NewJPScript(sc, rec)
	script.HostReply = func(hc *HostCall) ([]byte, error) {
		switch hc.Fn {
		case "getctx":
			return hostValue, nil
		case "jitsender":
			return common.BytesToAddress(hostValue).Bytes(), nil
		}
		return nil, nil
	}
	return RunArtela(sc, ArtelaOpts{Debug: debug, Rec: rec, Script: script}), script
}

func checkC16Tx(sc *Scenario, st *Stats) *Violation {
	var ex c16TxExtra
	_ = json.Unmarshal(sc.Extra, &ex)
	if ex.Reps < 2 {
		ex.Reps = 4
	}
	names := c16Names()
	var first string
	var addrs []common.Address
	hostCalls, frames, pre := 0, 0, 0
	for rep := 0; rep < ex.Reps; rep++ {
		r, script := c16TxRun(sc, rep%2 == 0, ex.HostValue)
		for i := range r.Obs {
			if r.Obs[i].Panic != "" {
				return violf("panic", "repetition %d, invocation %d: the VM panicked: %.1500s", rep, i, r.Obs[i].Panic)
			}
		}
		if addrs == nil {
			fl, _ := BuildFrames(r.Rec.Evs)
			addrs = c04Universe(sc, fl)
			if fl != nil {
				frames = len(fl.Frames)
				for _, f := range fl.Frames {
					if b := f.To.Bytes(); f.To != (common.Address{}) && strings.Trim(string(b[:19]), "\x00") == "" && b[19] >= 0x64 && b[19] <= 0x66 {
						pre++
					}
				}
			}
		}
		d, _ := c16Dump(sc, r, addrs, names)
		var sb strings.Builder
		sb.WriteString(d)
		for _, hc := range script.HostCalls {
			fmt.Fprintf(&sb, "host %s addr=%x key=%q value=%x hash=%x\n", hc.Fn, hc.Addr, hc.Key, hc.Value, hc.Hash)
		}
		hostCalls = len(script.HostCalls)
		d = sb.String()
		if rep == 0 {
			first = d
		} else if d != first {
			return violf("tx/nondeterministic", "repetition %d of the same transaction on equal pre-state (fresh state, fresh EVM; an unrelated execution ran on another EVM in between) differs from the first run:\n%s", rep, firstDiff(first, d))
		}
		if ex.Other != nil {
			c16TxRun(ex.Other, true, []byte("other"))
		}
	}
	nontrivial := ex.Other != nil && frames >= 2
	labels := []string{"tx", "family:" + ex.Family, "fork:" + sc.Fork}
	if hostCalls > 0 {
		labels = append(labels, "host-calls")
	}
	if pre > 0 {
		labels = append(labels, "artela-precompile")
	}
	if len(sc.ExtraEips) > 0 {
		labels = append(labels, "extra-eips")
	}
	st.Case(sc.JSON(), nontrivial, sc, labels...)
	return nil
}

// c16TxOne draws one transaction of the given family.
func c16TxOne(t *rapid.T, family string, fork string, onlyCall bool) *Scenario {
	switch family {
	case "precompile":
		sc := genC14(t)
		if fork != "" {
			sc.Fork = fork
		}
		sc.Invs = sc.Invs[1:] // without the warm-up: whatever precedes comes from OTHER EVMs here
		if onlyCall {
			// a plain CALL from a drawn caller straight to the precompile
			sc.Invs[0].Kind = "call"
			sc.Invs[0].Caller = common.BytesToAddress([]byte{0xca, byte(uniform(t, 1, 250, "othercaller"))})
			sc.Invs[0].To = common.BytesToAddress([]byte{byte(0x64 + uniform(t, 0, 2, "othertarget"))})
			sc.Invs[0].Gas = 200000
		}
		sc.Extra = nil
		return sc
	case "prog":
		sc := GenProgScenario(t, ProgCfg{Fork: fork, Sites: true})
		for i := range sc.Invs {
			sc.Invs[i].JP = rapid.Bool().Draw(t, "jp")
		}
		return sc
	default:
		sc := GenTreeScenario(t, TreeCfg{MaxInvs: 2, Budget: 6, AllKinds: true, Journal: true, EmptyData: 20, ValuePct: 40, LowGasPct: 10})
		if fork != "" {
			sc.Fork = fork
		}
		for i := range sc.Invs {
			sc.Invs[i].JP = !chance(t, 30, "jpoff")
		}
		bindAspects(t, sc, []AspectSpec{{Burn: 0, End: "ok"}, {Burn: 10, End: "ok"}, {Burn: 0, End: "revert"}}, 40)
		return sc
	}
}

func genC16Tx(t *rapid.T) *Scenario {
	fams := []string{"precompile", "precompile", "prog", "prog", "tree", "eips", "stdpre"}
	fam := fams[uniform(t, 0, len(fams)-1, "family")]
	if fam == "eips" {
		return genC16Eips(t)
	}
	if fam == "stdpre" {
		return genC16StdPre(t)
	}
	sc := c16TxOne(t, fam, "", false)
	ex := c16TxExtra{Reps: 4, Family: fam, HostValue: rapid.SliceOfN(rapid.Byte(), 0, 40).Draw(t, "hostvalue")}
	if tierIsThorough() {
		ex.Reps = 8
	}
	if chance(t, 85, "other") {
		ofam := fam
		if chance(t, 30, "otherfam") {
			ofam = fams[uniform(t, 0, len(fams)-1, "ofamily")]
		}
		// mostly on the same fork (same shared instruction set / precompile map)
		ofork := sc.Fork
		if chance(t, 20, "otherfork") {
			ofork = ""
		}
		if ofam == "tree" && ofork != "" {
			ofork = "" // tree scenarios pick code for their own fork
		}
		o := c16TxOne(t, ofam, ofork, ofam == "precompile" && chance(t, 70, "othercall"))
		o.Extra = nil
		ex.Other = o
	}
	sc.Extra, _ = json.Marshal(ex)
	return sc
}

// genC16Eips: T runs on a fork WITHOUT extra EIPs and favours the instructions extra
// EIPs re-price; the unrelated execution in between runs on the same fork WITH extra
// EIPs (instruction sets are per fork and package level: an EVM configured with an
// extra EIP must patch its own copy only).
func genC16Eips(t *rapid.T) *Scenario {
	idx := uniform(t, 2, 10, "fork")
	fork := ForkNames[idx]
	var cand []int
	for _, e := range eipList {
		if e == 2929 || (e == 3529 && idx < 8) || (e == 3860 && idx < 5) {
			continue // see GenProgScenarioSites: not configurations a host can run
		}
		if eipActivation[e] > idx {
			cand = append(cand, e)
		}
	}
	// T's own extra EIPs: none (half of the cases) or a subset; the unrelated execution
	// gets ANOTHER non-empty subset on the same fork
	subset := func(label string) []int {
		var out []int
		for _, e := range cand {
			if rapid.Bool().Draw(t, label) {
				out = append(out, e)
			}
		}
		return out
	}
	var own []int
	if rapid.Bool().Draw(t, "owneips") {
		own = subset("owneip")
	}
	extra := subset("eip")
	if len(extra) == 0 || fmt.Sprint(extra) == fmt.Sprint(own) {
		extra = nil
		for _, e := range cand {
			in := false
			for _, x := range own {
				in = in || x == e
			}
			if !in {
				extra = append(extra, e)
				break
			}
		}
		if len(extra) == 0 {
			extra, own = own, nil
		}
	}
	var focus []byte
	tab := OpTableFor(fork, own)
	foreign := OpTableFor(fork, extra)
	for _, op := range []byte{SLOAD, BALANCE, EXTCODESIZE, EXTCODEHASH, SSTORE, PUSH0, BASEFEE, CHAINID, SELFBALANCE, EXTCODECOPY} {
		// opcodes T's configuration does not define but the other one does are the
		// interesting ones: if anything leaks they start to work
		if tab[op].Defined || (foreign[op].Defined && chance(t, 60, "foreignop")) || chance(t, 10, "undefinedop") {
			focus = append(focus, op)
		}
	}
	if own == nil {
		own = []int{}
	}
	sc := GenProgScenario(t, ProgCfg{Fork: fork, Extra: own, Focus: focus, FocusPct: 35, NoArtelaPre: true})
	ex := c16TxExtra{Reps: 3, Family: "eips", HostValue: []byte{1}}
	o := GenProgScenario(t, ProgCfg{Fork: fork, Extra: extra, Contracts: 1, MaxSnips: 3, NoArtelaPre: true})
	ex.Other = o
	sc.Extra, _ = json.Marshal(ex)
	return sc
}

// a valid ECRECOVER input (hash, v, r, s) from the reference test vectors
var ecrecoverVector = common.FromHex("18c547e4f7b0f325ad1e56f57e26c745b09a3e503d86e00e5255ff7f715d3d1c" +
	"000000000000000000000000000000000000000000000000000000000000001c" +
	"73b1693892219d736caba55bdb67216e485557ea6b6af75f37096c9aa6a5a75f" +
	"eeb940b1d03b21e36b0e47e79769f095fe2ab855bd91e3a38756b7d75a9c4549")

// genC16StdPre: T calls a standard precompile with a TRUNCATED input (the missing
// bytes are zeros by specification); the unrelated execution on another EVM calls the
// same precompile with a full-size input. The precompile objects are package-level
// singletons: nothing an earlier call leaves in them may complete a later input.
func genC16StdPre(t *rapid.T) *Scenario {
	type pre struct {
		addr uint64
		full int
	}
	p := []pre{{1, 128}, {1, 128}, {6, 128}, {7, 96}, {8, 192}, {9, 213}, {5, 160}}[uniform(t, 0, 6, "stdp")]
	full := rapid.SliceOfN(rapid.Byte(), p.full, p.full).Draw(t, "stdfull")
	if p.addr == 1 {
		full = append([]byte{}, ecrecoverVector...)
	}
	cut := []int{0, 32, 64, 96, 1, 31, 33, p.full - 1}[uniform(t, 0, 7, "stdcut")]
	if cut > p.full {
		cut = p.full / 2
	}
	fork := ForkNames[uniform(t, 7, 12, "stdfork")]
	mk := func(in []byte, self common.Address) *Scenario {
		a := NewAsm()
		a.MstoreBytes(0, in)
		a.Push(0x40).Push(0x300).Push(len(in)).Push(0).Push(0).Push(p.addr).Push(200000).Op(CALL).Push(1).Op(SSTORE)
		a.Op(RETURNDATASIZE).Push(2).Op(SSTORE)
		a.Push(0x300).Op(MLOAD).Push(3).Op(SSTORE)
		a.Push(0x320).Op(MLOAD).Push(4).Op(SSTORE).Op(STOP)
		sc := &Scenario{Fork: fork}
		sc.Accounts = []Account{{Addr: self, Nonce: 1, Code: a.Bytes()}, {Addr: EOAAddr, Balance: hexU64(1 << 40), Nonce: 1}}
		sc.Invs = []Invocation{{Kind: "call", Origin: EOAAddr, Caller: EOAAddr, To: self, Gas: 1_000_000}}
		return sc
	}
	sc := mk(full[:cut], ContractAddrs[0])
	ex := c16TxExtra{Reps: 3, Family: "stdpre", HostValue: []byte{1}, Other: mk(full, ContractAddrs[1])}
	sc.Extra, _ = json.Marshal(ex)
	return sc
}

func TestC16Tx(t *testing.T) { runProp(t, "C16", genC16Tx, checkC16Tx) }
