package h

import (
	"fmt"
	"os"
	"testing"
)

func TestDbgC06(t *testing.T) {
	sc, err := LoadScenario(os.Getenv("CASE"))
	if err != nil {
		t.Fatal(err)
	}
	an, bad := analyseJP(sc, ArtelaOpts{})
	fmt.Println(bad)
	plain := sc.Clone()
	plain.Bindings = nil
	pr := RunArtela(plain, ArtelaOpts{Debug: true})
	for i := range sc.Invs {
		fmt.Printf("inv %d: with=%d (%s) without=%d (%s)\n", i, an.art.Obs[i].Gas, an.art.Obs[i].Err, pr.Obs[i].Gas, pr.Obs[i].Err)
	}
	for _, f := range an.firings {
		for _, ar := range f.Aspects {
			fmt.Printf("firing frame#%d inv=%d post=%v in=%d out=%d err=%.30s\n", f.Frame.Idx, f.Frame.Inv, f.Post, ar.GasIn, ar.GasOut, ar.Err)
		}
	}
	for _, F := range an.fl.Frames {
		fmt.Printf("frame #%d inv=%d kind=%02x depth=%d to=%x gas=%d err=%q used=%d\n", F.Idx, F.Inv, F.Kind, F.Depth, F.To[18:], F.Gas, F.Err, F.GasUsed)
	}
	fl2, _ := BuildFrames(pr.Rec.Evs)
	for _, F := range fl2.Frames {
		fmt.Printf("plain frame #%d inv=%d kind=%02x depth=%d to=%x gas=%d err=%q used=%d\n", F.Idx, F.Inv, F.Kind, F.Depth, F.To[18:], F.Gas, F.Err, F.GasUsed)
	}
}
