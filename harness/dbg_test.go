package h

import (
	"fmt"
	"testing"
)

func TestDbgAspect(t *testing.T) {
	for _, end := range []string{"ok", "trap", "revert"} {
		for _, burn := range []uint64{0, 1000, 1000000000} {
			code := NewAsm().Push(7).Push(1).Op(SSTORE).ReturnBytes([]byte("hello")).Bytes()
			sc := &Scenario{Fork: "Shanghai",
				Accounts: []Account{{Addr: ContractAddrs[0], Nonce: 1, Code: code}, {Addr: EOAAddr, Balance: hexU64(1 << 40)}},
				Invs:     []Invocation{{Kind: "call", Origin: EOAAddr, Caller: EOAAddr, To: ContractAddrs[0], Gas: 200000, JP: true, Input: []byte{1, 2}, Value: hexU64(5)}},
				Bindings: []AspectBinding{{Contract: ContractAddrs[0], Pre: []AspectSpec{{Burn: burn, End: end}}, Post: []AspectSpec{{Burn: 10, End: "ok"}}}},
			}
			r := RunArtela(sc, ArtelaOpts{Debug: true})
			fmt.Printf("== end=%s burn=%d -> ret=%x err=%q gas=%d panic=%.200s\n", end, burn, r.Obs[0].Ret, r.Obs[0].Err, r.Obs[0].Gas, r.Obs[0].Panic)
			for _, e := range r.Rec.Evs {
				switch e.K {
				case EvLookup:
					fmt.Printf("   lookup %s %x\n", e.PointCut, e.To[18:])
				case EvAspectEnter:
					fmt.Printf("   aenter jp=%d gas=%d req=%v\n", e.JP, e.Gas, e.Req)
				case EvAspectExit:
					fmt.Printf("   aexit jp=%d gas=%d err=%q out=%x\n", e.JP, e.Gas, e.Err, e.Output)
				case EvStart, EvEnd:
					fmt.Printf("   %s gas=%d used=%d err=%q\n", e.K, e.Gas, e.GasUsed, e.Err)
				}
			}
			fmt.Printf("   balance callee=%s\n", r.Obs[0].Accts[ContractAddrs[0]].Balance)
		}
	}
}
