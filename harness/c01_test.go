package h

import (
	"fmt"
	"testing"

	"pgregory.net/rapid"
)

// ---- C01: execution matches go-ethereum v1.12.0 ---------------------------

func isStateChangingOp(op byte) bool {
	switch op {
	case SSTORE, CREATE, CREATE2, SELFDESTRUCT, CALL, CALLCODE, LOG0, LOG0 + 1, LOG0 + 2, LOG0 + 3, LOG4:
		return true
	}
	return false
}

// outOfStandardDomain inspects the REFERENCE run: a program that executes a
// journal opcode byte or touches 0x64..0x66 from Berlin on is outside "standard
// opcodes and standard precompiles only".
func outOfStandardDomain(sc *Scenario, rec *Recorder) string {
	berlin := forkIndex(sc.Fork) >= 8
	for _, a := range sc.ExtraEips {
		if a == 2929 {
			berlin = true
		}
	}
	for i := range rec.Evs {
		e := &rec.Evs[i]
		if e.K != EvStep {
			continue
		}
		if isNonStandardOpByte(e.Op) {
			return "non-standard-opcode-byte"
		}
		var pos int
		switch e.Op {
		case BALANCE, EXTCODESIZE, EXTCODEHASH, EXTCODECOPY, SELFDESTRUCT:
			pos = 1
		case CALL, CALLCODE, DELEGATECALL, STATICCALL:
			pos = 2
		default:
			continue
		}
		if len(e.Stack) < pos {
			continue
		}
		w := e.Stack[len(e.Stack)-pos]
		b := w.Bytes20()
		lo := b[19]
		zero := true
		for _, x := range b[:19] {
			zero = zero && x == 0
		}
		if zero && lo >= 0x64 && lo <= 0x66 {
			_ = berlin
			return "artela-precompile-address"
		}
	}
	for _, inv := range sc.Invs {
		b := inv.To
		zero := true
		for _, x := range b[:19] {
			zero = zero && x == 0
		}
		if zero && b[19] >= 0x64 && b[19] <= 0x66 {
			return "artela-precompile-address"
		}
	}
	return ""
}

func compareObs(prop, clause string, a, u []Obs) *Violation {
	if len(a) != len(u) {
		return violf(clause+"/count", "invocation count %d vs %d", len(a), len(u))
	}
	for i := range a {
		if a[i].Panic != "" {
			return violf(clause+"/panic", "artela panicked in invocation %d: %s", i, a[i].Panic)
		}
		if ao, uo := a[i].Outcome(), u[i].Outcome(); ao != uo {
			return violf(clause+"/outcome", "invocation %d differs\n artela:   %s\n upstream: %s\n accounts:\n%s", i, ao, uo, AcctDiff(a[i].Accts, u[i].Accts))
		}
	}
	return nil
}

func checkC01(sc *Scenario, st *Stats) *Violation {
	up := RunUpstream(sc, UpOpts{Debug: true})
	for i := range up.Obs {
		if up.Obs[i].Panic != "" {
			// the reference itself cannot run this case: harness precondition problem
			st.Exclude("upstream-panic")
			return nil
		}
	}
	if why := outOfStandardDomain(sc, up.Rec); why != "" {
		st.Exclude(why)
		return nil
	}
	art := RunArtela(sc, ArtelaOpts{NullTracer: true})
	if v := compareObs("C01", "diff", art.Obs, up.Obs); v != nil {
		return v
	}
	// metamorphic: debug tracer on/off x join points on/off (nothing bound)
	on, off := true, false
	for _, variant := range []struct {
		name  string
		debug bool
		jp    *bool
	}{{"nodebug-jpon", false, &on}, {"debug-jpoff", true, &off}, {"nodebug-jpoff", false, &off}, {"debug-jpon", true, &on}} {
		r := RunArtela(sc, ArtelaOpts{NullTracer: variant.debug, JPOverride: variant.jp})
		if v := compareObs("C01", "meta/"+variant.name, r.Obs, up.Obs); v != nil {
			return v
		}
	}
	// classification
	steps := up.Rec.Steps
	nested, changing, failed := false, false, false
	for i := range up.Rec.Evs {
		e := &up.Rec.Evs[i]
		switch e.K {
		case EvEnter:
			nested = true
		case EvStep:
			if isStateChangingOp(e.Op) {
				changing = true
			}
		case EvExit, EvEnd:
			if e.Err != "" {
				failed = true
			}
		}
	}
	nontrivial := steps >= 8 && (nested || changing)
	labels := []string{"fork:" + sc.Fork}
	for i, inv := range sc.Invs {
		labels = append(labels, "kind:"+inv.Kind, "err:"+up.Obs[i].ErrClass())
	}
	if nested {
		labels = append(labels, "nested")
	}
	if failed {
		labels = append(labels, "failed-frame")
	}
	if len(sc.ExtraEips) > 0 {
		labels = append(labels, "extra-eips")
	}
	if nontrivial {
		labels = append(labels, "nontrivial")
	}
	for op, n := range up.Rec.OpCount {
		if n > 0 {
			st.Label(fmt.Sprintf("fop:%s:%02x", sc.Fork, op))
		}
	}
	st.LabelN("steps", steps)
	st.Case(sc.JSON(), nontrivial, sc, labels...)
	return nil
}

// genStandard: generated programs (75%) or scripted call trees (25%: deeper
// nesting, logs, reverting frames, creates) - both use standard opcodes only.
func genStandard(t *rapid.T) *Scenario {
	if chance(t, 25, "stdtree") {
		sc := GenTreeScenario(t, TreeCfg{MinFork: 4, MaxFork: 11, MaxInvs: 3, Budget: 12, AllKinds: true, EmptyData: 15, ValuePct: 40, LowGasPct: 20, ReturnBig: true})
		for i := range sc.Invs {
			sc.Invs[i].JP = rapid.Bool().Draw(t, "stdjp")
			if chance(t, 30, "stdgas") {
				sc.Invs[i].Gas = rapid.Uint64Range(21000, 400000).Draw(t, "stdgasv")
			}
		}
		return sc
	}
	return GenProgScenario(t, ProgCfg{Standard: true})
}

func genC01(t *rapid.T) *Scenario { return genStandard(t) }

func TestC01(t *testing.T)       { runProp(t, "C01", genC01, checkC01) }
func TestC01Replay(t *testing.T) { replayProp(t, "C01", checkC01) }
