package h

import (
	"encoding/binary"
	"fmt"
	"math/big"

	"github.com/holiman/uint256"
)

// Opcode bytes used by the generators. They are spelled out here (and not taken
// from the code under test) so that the harness does not depend on the opcode
// table it is checking.
const (
	STOP           = 0x00
	ADD            = 0x01
	MUL            = 0x02
	SUB            = 0x03
	DIV            = 0x04
	SDIV           = 0x05
	MOD            = 0x06
	SMOD           = 0x07
	ADDMOD         = 0x08
	MULMOD         = 0x09
	EXP            = 0x0a
	SIGNEXTEND     = 0x0b
	LT             = 0x10
	GT             = 0x11
	SLT            = 0x12
	SGT            = 0x13
	EQ             = 0x14
	ISZERO         = 0x15
	AND            = 0x16
	OR             = 0x17
	XOR            = 0x18
	NOT            = 0x19
	BYTE           = 0x1a
	SHL            = 0x1b
	SHR            = 0x1c
	SAR            = 0x1d
	KECCAK256      = 0x20
	ADDRESS        = 0x30
	BALANCE        = 0x31
	ORIGIN         = 0x32
	CALLER         = 0x33
	CALLVALUE      = 0x34
	CALLDATALOAD   = 0x35
	CALLDATASIZE   = 0x36
	CALLDATACOPY   = 0x37
	CODESIZE       = 0x38
	CODECOPY       = 0x39
	GASPRICE       = 0x3a
	EXTCODESIZE    = 0x3b
	EXTCODECOPY    = 0x3c
	RETURNDATASIZE = 0x3d
	RETURNDATACOPY = 0x3e
	EXTCODEHASH    = 0x3f
	BLOCKHASH      = 0x40
	COINBASE       = 0x41
	TIMESTAMP      = 0x42
	NUMBER         = 0x43
	DIFFICULTY     = 0x44
	GASLIMIT       = 0x45
	CHAINID        = 0x46
	SELFBALANCE    = 0x47
	BASEFEE        = 0x48
	POP            = 0x50
	MLOAD          = 0x51
	MSTORE         = 0x52
	MSTORE8        = 0x53
	SLOAD          = 0x54
	SSTORE         = 0x55
	JUMP           = 0x56
	JUMPI          = 0x57
	PC             = 0x58
	MSIZE          = 0x59
	GAS            = 0x5a
	JUMPDEST       = 0x5b
	TLOAD          = 0x5c
	TSTORE         = 0x5d
	MCOPY          = 0x5e
	PUSH0          = 0x5f
	PUSH1          = 0x60
	PUSH2          = 0x61
	PUSH4          = 0x63
	PUSH20         = 0x73
	PUSH32         = 0x7f
	DUP1           = 0x80
	DUP2           = 0x81
	DUP3           = 0x82
	DUP16          = 0x8f
	SWAP1          = 0x90
	SWAP2          = 0x91
	SWAP16         = 0x9f
	LOG0           = 0xa0
	LOG4           = 0xa4
	UPTLOAD        = 0xb3 // upstream v1.12.0 EIP-1153 opcode positions
	UPTSTORE       = 0xb4
	RSVJNAL        = 0xe0
	VSVJNAL        = 0xe1
	IRVVJNAL       = 0xe2
	IRVRJNAL       = 0xe3
	IVVVJNAL       = 0xe4
	IVVRJNAL       = 0xe5
	VVJNAL         = 0xe6
	VRJNAL         = 0xe7
	CREATE         = 0xf0
	CALL           = 0xf1
	CALLCODE       = 0xf2
	RETURN         = 0xf3
	DELEGATECALL   = 0xf4
	CREATE2        = 0xf5
	STATICCALL     = 0xfa
	REVERT         = 0xfd
	INVALID        = 0xfe
	SELFDESTRUCT   = 0xff
)

// Asm is a tiny two-pass assembler: labels are referenced through fixed-width
// PUSH2 so that code layout does not depend on label values.
type Asm struct {
	buf    []byte
	labels map[string]int
	fix    []asmFix
	nlabel int
}

type asmFix struct {
	pos   int
	label string
	add   int
}

func NewAsm() *Asm { return &Asm{labels: map[string]int{}} }

func (a *Asm) Len() int { return len(a.buf) }

// Op appends raw opcode bytes.
func (a *Asm) Op(ops ...byte) *Asm {
	a.buf = append(a.buf, ops...)
	return a
}

// Raw appends raw bytes (data).
func (a *Asm) Raw(b []byte) *Asm {
	a.buf = append(a.buf, b...)
	return a
}

// PushBytes pushes b (1..32 bytes) with PUSHlen.
func (a *Asm) PushBytes(b []byte) *Asm {
	if len(b) == 0 {
		b = []byte{0}
	}
	if len(b) > 32 {
		panic("push too long")
	}
	a.buf = append(a.buf, byte(PUSH1+len(b)-1))
	a.buf = append(a.buf, b...)
	return a
}

// Push pushes a value with the shortest PUSHn (never PUSH0, which is fork dependent).
func (a *Asm) Push(v interface{}) *Asm {
	switch x := v.(type) {
	case int:
		if x < 0 {
			panic("negative push")
		}
		return a.PushU64(uint64(x))
	case uint64:
		return a.PushU64(x)
	case byte:
		return a.PushU64(uint64(x))
	case *uint256.Int:
		b := x.Bytes()
		return a.PushBytes(b)
	case uint256.Int:
		b := x.Bytes()
		return a.PushBytes(b)
	case *big.Int:
		return a.PushBytes(x.Bytes())
	case []byte:
		return a.PushBytes(x)
	case [20]byte:
		return a.PushBytes(x[:])
	case [32]byte:
		return a.PushBytes(x[:])
	default:
		panic(fmt.Sprintf("push: unsupported %T", v))
	}
}

func (a *Asm) PushU64(x uint64) *Asm {
	var b [8]byte
	binary.BigEndian.PutUint64(b[:], x)
	i := 0
	for i < 7 && b[i] == 0 {
		i++
	}
	return a.PushBytes(b[i:])
}

// NewLabel returns a fresh label name.
func (a *Asm) NewLabel() string {
	a.nlabel++
	return fmt.Sprintf("L%d", a.nlabel)
}

// Label binds name to the current position and emits a JUMPDEST.
func (a *Asm) Label(name string) *Asm {
	a.labels[name] = len(a.buf)
	a.buf = append(a.buf, JUMPDEST)
	return a
}

// Mark binds name to the current position without emitting anything (data labels).
func (a *Asm) Mark(name string) *Asm {
	a.labels[name] = len(a.buf)
	return a
}

// PushLabel emits PUSH2 <label position + add>.
func (a *Asm) PushLabel(name string) *Asm { return a.PushLabelAdd(name, 0) }

func (a *Asm) PushLabelAdd(name string, add int) *Asm {
	a.buf = append(a.buf, PUSH2)
	a.fix = append(a.fix, asmFix{pos: len(a.buf), label: name, add: add})
	a.buf = append(a.buf, 0, 0)
	return a
}

func (a *Asm) Jump(name string) *Asm  { return a.PushLabel(name).Op(JUMP) }
func (a *Asm) Jumpi(name string) *Asm { return a.PushLabel(name).Op(JUMPI) }

// Bytes resolves labels and returns the code.
func (a *Asm) Bytes() []byte {
	out := append([]byte(nil), a.buf...)
	for _, f := range a.fix {
		p, ok := a.labels[f.label]
		if !ok {
			panic("asm: undefined label " + f.label)
		}
		p += f.add
		if p > 0xffff {
			panic("asm: label out of range")
		}
		out[f.pos] = byte(p >> 8)
		out[f.pos+1] = byte(p)
	}
	return out
}

// MstoreBytes emits code that writes data to memory at off (32-byte chunks, the
// last one left-aligned so bytes after the end are zeroed up to the word).
func (a *Asm) MstoreBytes(off int, data []byte) *Asm {
	for i := 0; i < len(data); i += 32 {
		var w [32]byte
		copy(w[:], data[i:])
		a.PushBytes(w[:]).Push(off + i).Op(MSTORE)
	}
	return a
}

// ReturnBytes emits code returning the literal data.
func (a *Asm) ReturnBytes(data []byte) *Asm {
	a.MstoreBytes(0, data)
	return a.Push(len(data)).Push(0).Op(RETURN)
}

// RevertBytes emits code reverting with the literal data.
func (a *Asm) RevertBytes(data []byte) *Asm {
	a.MstoreBytes(0, data)
	return a.Push(len(data)).Push(0).Op(REVERT)
}

// InitCodeReturning builds init code that deploys the given runtime code.
func InitCodeReturning(runtime []byte) []byte {
	a := NewAsm()
	// CODECOPY(dst=0, src=label, len) ; RETURN(0, len)
	a.Push(len(runtime)).PushLabel("data").Push(0).Op(CODECOPY)
	a.Push(len(runtime)).Push(0).Op(RETURN)
	a.Mark("data").Raw(runtime)
	return a.Bytes()
}

// opPositions reports, for each byte of code, whether it is an opcode position
// (as opposed to PUSH immediate data).
func opPositions(code []byte) []bool {
	res := make([]bool, len(code))
	for i := 0; i < len(code); i++ {
		res[i] = true
		op := code[i]
		if op >= PUSH1 && op <= PUSH32 {
			i += int(op-PUSH1) + 1
		}
	}
	return res
}
