package h

import (
	"encoding/json"
	"fmt"
	"math/big"
	"strings"
	"testing"

	avm "github.com/artela-network/artela-evm/vm"
	"github.com/ethereum/go-ethereum/common"
	"github.com/ethereum/go-ethereum/core/state"
	"github.com/holiman/uint256"
	"pgregory.net/rapid"
)

// ---- C03: nothing crashes the VM; bookkeeping closes -----------------------------

const governorCap = 100000

// govState counts state reads per executed instruction and aborts runaway
// instructions with a sentinel panic (work governor, DESIGN 2.3).
type govState struct {
	*state.StateDB
	reads    int
	maxReads int
	tripped  bool
	// the instruction executing at each trip, in order (one per aborted invocation)
	lastOp  *byte
	tripOps []byte
}

type governorAbort struct{ reads int }

func (g governorAbort) String() string {
	return fmt.Sprintf("governorAbort after %d state reads", g.reads)
}

func (g *govState) GetState(a common.Address, k common.Hash) common.Hash {
	g.reads++
	if g.reads > g.maxReads {
		g.maxReads = g.reads
	}
	if g.reads > governorCap {
		g.tripped = true
		if g.lastOp != nil {
			g.tripOps = append(g.tripOps, *g.lastOp)
		}
		panic(governorAbort{g.reads})
	}
	return g.StateDB.GetState(a, k)
}

// hostileStorage: string encodings that are valid, invalid or huge.
func hostileStorage(t *rapid.T) map[common.Hash]common.Hash {
	st := map[common.Hash]common.Hash{}
	words := []*big.Int{}
	for _, s := range []string{"0", "1", "3", "61", "62", "63", "64", "65", "128", "254", "255", "256", "257", "2097153", "8589934593",
		"18446744073709551617", "36893488147419103233", "115792089237316195423570985008687907853269984665640564039457584007913129639935"} {
		v, _ := new(big.Int).SetString(s, 10)
		words = append(words, v)
	}
	pick := func(label string) *big.Int {
		if chance(t, 40, label+".b") {
			return boundaryWord(t, label)
		}
		return words[uniform(t, 0, len(words)-1, label)]
	}
	for i := 0; i < 6; i++ {
		st[common.BigToHash(big.NewInt(int64(0x7000+i)))] = common.BigToHash(pick("hostw"))
	}
	for i := 0; i < 3; i++ {
		st[common.BigToHash(big.NewInt(int64(0x1000+i)))] = common.BigToHash(pick("hostw2"))
	}
	if chance(t, 50, "hostrand") {
		st[common.BigToHash(big.NewInt(int64(rapid.IntRange(0, 2).Draw(t, "hostrk"))))] = common.BytesToHash(rapid.SliceOfN(rapid.Byte(), 32, 32).Draw(t, "hostrv"))
	}
	return st
}

// boundaryWord: 2^k + d for the powers where a decoder changes representation
// (length = word/2, so the uint64 boundary of a stored length is at 2^65) and the
// deltas where "+31", "+32", "*2+1" style arithmetic wraps.
func boundaryWord(t *rapid.T, label string) *big.Int {
	k := pickInt(t, label+".k", 5, 6, 7, 8, 16, 20, 31, 32, 33, 62, 63, 64, 64, 65, 65, 65, 66, 127, 128, 255, 256)
	d := pickInt(t, label+".d", -65, -64, -63, -62, -61, -33, -32, -31, -3, -2, -1, 0, 1, 2, 3, 31, 32, 33, 61, 62, 63, 64, 65)
	w := new(big.Int).Lsh(big.NewInt(1), uint(k))
	w.Add(w, big.NewInt(int64(d)))
	if w.Sign() < 0 {
		w.SetInt64(0)
	}
	return w.And(w, new(big.Int).Sub(new(big.Int).Lsh(big.NewInt(1), 256), big.NewInt(1)))
}

// hostileProbe: memory with a chosen length word, then ONE journal instruction
// with boundary operands, executed in a chosen call kind at depth 0..3.
func hostileProbe(t *rapid.T) *Scenario {
	g := &progGen{t: t, cfg: ProgCfg{Journal: true}}
	a := NewAsm()
	// some memory, then a length word (and optionally content) somewhere
	msize := pickInt(t, "msize", 0, 0x20, 0x400, 0x420, 0x1000)
	if msize > 0 {
		a.Push(1).Push(msize - 0x20).Op(MSTORE)
	}
	lenWords := []string{"0", "1", "31", "32", "33", "1024", "1048576", "4294967296", "9223372036854775807", "9223372036854775808", "18446744073709551615",
		"18446744073709551616", "57896044618658097711785492504343953926634992332820282019728792003956564819968"}
	if msize >= 0x40 {
		lw := pickBig(t, "lenword", lenWords...)
		ptr := pickInt(t, "lenptr", 0, jMemName, msize-0x20, msize-0x40)
		if ptr >= 0 && ptr+0x20 <= msize {
			a.Push(lw).Push(ptr).Op(MSTORE)
		}
	}
	op := byte(RSVJNAL + uniform(t, 0, 7, "hop"))
	pops := map[byte]int{RSVJNAL: 3, VSVJNAL: 4, IRVVJNAL: 6, IRVRJNAL: 5, IVVVJNAL: 6, IVVRJNAL: 5, VVJNAL: 4, VRJNAL: 2}[op]
	if chance(t, 40, "hreg") {
		// register something first so that change journals find a key
		c := &codeGen{a: a, g: g}
		k := jTopRef[uniform(t, 0, 2, "hregk")]
		if rapid.Bool().Draw(t, "hregv") {
			k = jTopValue[uniform(t, 0, len(jTopValue)-1, "hregkv")]
		}
		c.registerKey(k)
		if chance(t, 70, "hchange") {
			c.journalChange(k)
		}
	}
	for i := 0; i < pops; i++ {
		a.Push(g.hostileWord("hw"))
	}
	a.Op(op)
	a.Push(1).Push(c09Marker).Op(SSTORE).Op(STOP)
	target := ContractAddrs[0]
	sc := &Scenario{Fork: ForkNames[uniform(t, 0, 12, "fork")]}
	st := hostileStorage(t)
	sc.Accounts = []Account{{Addr: target, Nonce: 1, Code: a.Bytes(), Storage: st, Balance: hexU64(10)}, {Addr: EOAAddr, Balance: hexU64(1 << 40), Nonce: 1}}
	inv := Invocation{Kind: []string{"call", "call", "callcode", "delegatecall", "staticcall"}[uniform(t, 0, 4, "hkind")], Origin: EOAAddr, Caller: EOAAddr, To: target, Gas: pickU64(t, "hgas", 1_000_000, 100_000, 30_000, 900), JP: rapid.Bool().Draw(t, "jp")}
	if inv.Kind == "callcode" || inv.Kind == "delegatecall" {
		inv.Caller = ContractAddrs[1]
		sc.Accounts = append(sc.Accounts, Account{Addr: ContractAddrs[1], Nonce: 1, Code: []byte{STOP}, Storage: st})
	}
	depth := uniform(t, 0, 3, "hdepth")
	entry := target
	for d := 0; d < depth; d++ {
		P := ContractAddrs[2+d]
		kind := []byte{CALL, DELEGATECALL, STATICCALL, CALLCODE}[uniform(t, 0, 3, "hpk")]
		if (kind == STATICCALL && forkIndex(sc.Fork) < 4) || (kind == DELEGATECALL && forkIndex(sc.Fork) < 1) {
			kind = CALL
		}
		p := NewAsm()
		p.Push(0).Push(0).Push(0).Push(0)
		if kind == CALL || kind == CALLCODE {
			p.Push(0)
		}
		p.Push(entry[:]).Push(20000).Op(GAS, SUB, kind).Op(POP, STOP)
		sc.Accounts = append(sc.Accounts, Account{Addr: P, Nonce: 1, Code: p.Bytes(), Storage: st})
		entry = P
	}
	if depth > 0 {
		inv.Kind, inv.To, inv.Caller = "call", entry, EOAAddr
	}
	sc.Invs = []Invocation{inv}
	sc.Note = "hostile-probe"
	return sc
}

func genC03(t *rapid.T) *Scenario {
	var sc *Scenario
	switch r := uniform(t, 0, 19, "family"); {
	case r < 7:
		sc = GenProgScenario(t, ProgCfg{Journal: true, Fork: ForkNames[uniform(t, 0, 12, "fork")]})
		for i := range sc.Accounts {
			if len(sc.Accounts[i].Code) > 0 && chance(t, 60, "hoststore") {
				if sc.Accounts[i].Storage == nil {
					sc.Accounts[i].Storage = map[common.Hash]common.Hash{}
				}
				for k, v := range hostileStorage(t) {
					sc.Accounts[i].Storage[k] = v
				}
			}
		}
		sc.Note = "prog+journal"
	case r < 13:
		sc = hostileProbe(t)
	case r < 16:
		sc = genC14(t)
		sc.Extra = nil
		sc.Note = "precompile-payload"
	case r < 18:
		code := rapid.SliceOfN(rapid.Byte(), 1, 120).Draw(t, "rawcode")
		if chance(t, 40, "tailpush") {
			// code analysis boundary: a taken jump (the jump-destination analysis is lazy)
			// in code of a chosen length whose LAST byte is a PUSHn with its immediate
			// cut off by the end of the code
			n := pickInt(t, "tplen", 8, 16, 24, 32, 40, 64, 7, 9, 15, 17, 33, 63, 65)
			code = make([]byte, n)
			for i := range code {
				code[i] = []byte{JUMPDEST, STOP, JUMPDEST, POP}[uniform(t, 0, 3, "tpfill")]
			}
			dest := 4 + uniform(t, 0, 1, "tpdest")
			code[0], code[1], code[2], code[3] = PUSH1, byte(dest), JUMP, STOP
			code[dest] = JUMPDEST
			code[n-1] = byte(PUSH1 + pickInt(t, "tpn", 31, 31, 30, 0, 15, 16, 7, 8))
			if chance(t, 30, "tp2") {
				code[n-2] = byte(PUSH1 + pickInt(t, "tpn2", 31, 30, 1))
			}
		}
		sc = &Scenario{Fork: ForkNames[uniform(t, 0, 12, "fork")], Note: "random-bytes"}
		sc.Accounts = []Account{{Addr: ContractAddrs[0], Nonce: 1, Code: code, Balance: hexU64(100), Storage: hostileStorage(t)}, {Addr: EOAAddr, Balance: hexU64(1 << 40), Nonce: 1}}
		kinds := []string{"call", "callcode", "delegatecall", "staticcall", "create", "create2"}
		inv := Invocation{Kind: kinds[uniform(t, 0, 5, "rkind")], Origin: EOAAddr, Caller: EOAAddr, To: ContractAddrs[0], Gas: 300000, JP: true, Input: rapid.SliceOfN(rapid.Byte(), 0, 64).Draw(t, "rdata")}
		if inv.Kind == "create" || inv.Kind == "create2" {
			inv.Input = code
			inv.Salt = hexU64(1)
		}
		if inv.Kind == "callcode" || inv.Kind == "delegatecall" {
			inv.Caller = ContractAddrs[0]
		}
		sc.Invs = []Invocation{inv}
	case r < 19 && chance(t, 30, "depthfam"):
		sc = depthScenario(t)
		if chance(t, 40, "collisionfam") {
			sc = collisionScenario(t)
		}
	default:
		sc = GenTreeScenario(t, TreeCfg{MaxFork: 12, MaxInvs: 2, Budget: 6, Journal: true, Transient: true, EmptyData: 30, ValuePct: 40, LowGasPct: 20, AllKinds: true})
		bindAspects(t, sc, []AspectSpec{{Burn: 0, End: "ok"}, {Burn: 0, End: "trap"}, {Burn: 1000000000, End: "ok"}, {Burn: 10, End: "revert"}}, 50)
		sc.Note = "tree+aspects"
	}
	if chance(t, 15, "faults") {
		sc.Faults = append(sc.Faults, Fault{Lookup: rapid.IntRange(0, 6).Draw(t, "faultat"), Text: "injected provider failure"})
	}
	// probe invocation: after everything a trivial top-level call must start at depth 0
	// (zero value: the scenario may have drained or destroyed the sender account)
	sc.Invs = append(sc.Invs, Invocation{Kind: "call", Origin: EOAAddr, Caller: EOAAddr, To: EOA2Addr, Gas: 50000, JP: true})
	return sc
}

func checkC03(sc *Scenario, st *Stats) *Violation {
	var gov *govState
	rec := NewRecorder()
	rec.KeepStack = true
	rec.StepHook = func(r *Recorder, e *Ev) {
		if gov != nil {
			gov.reads = 0
		}
	}
	var lastOp byte
	rec.Hook = func(e *Ev) {
		if e.K == EvStep {
			lastOp = e.Op
		}
	}
	var currentAfter []bool
	art := RunArtela(sc, ArtelaOpts{Debug: true, Rec: rec, NoRoot: false,
		WrapState: func(s avm.StateDB) avm.StateDB {
			gov = &govState{StateDB: s.(*state.StateDB), lastOp: &lastOp}
			return gov
		},
		AfterInv: func(i int, evm *avm.EVM, s *state.StateDB, obs *Obs) {
			currentAfter = append(currentAfter, evm.Tracer().CallTree().Current() == nil)
		}})
	journalOps, artelaPre := 0, false
	for i := range rec.Evs {
		e := &rec.Evs[i]
		if e.K == EvStep && e.Op >= RSVJNAL && e.Op <= VRJNAL {
			journalOps++
		}
		if e.K == EvEnter || e.K == EvStart {
			if b := e.To; b[19] >= 0x64 && b[19] <= 0x66 && strings.Count(string(b[:19]), "\x00") == 19 {
				artelaPre = true
			}
		}
	}
	exceptional := false
	trips := 0
	for i := range art.Obs {
		o := &art.Obs[i]
		if o.Panic != "" {
			if strings.Contains(o.Panic, "governorAbort") {
				// the instruction that was executing when THIS invocation was cut off (later
				// invocations keep running and execute other instructions)
				op := lastOp
				if gov != nil && trips < len(gov.tripOps) {
					op = gov.tripOps[trips]
				}
				trips++
				return violf(fmt.Sprintf("unbounded-work/op=%02x", op), "invocation %d: instruction %02x performed more than %d state reads (work governor tripped)", i, op, governorCap)
			}
			return violf("panic", "invocation %d (%s, %s): the VM panicked: %.1500s", i, sc.Invs[i].Kind, sc.Note, o.Panic)
		}
		if o.Err != "" && o.Err != "execution reverted" {
			exceptional = true
		}
		if i < len(currentAfter) && !currentAfter[i] {
			return violf("cursor-open", "after invocation %d the call-tree cursor is not at rest", i)
		}
	}
	// the probe invocation (last one) must be announced as a top-level frame
	last := len(sc.Invs) - 1
	started := false
	in := false
	for i := range rec.Evs {
		e := &rec.Evs[i]
		if e.K == EvInvBegin {
			in = int(e.PC) == last
		}
		if in && e.K == EvStart {
			started = true
		}
		if in && e.K == EvEnter {
			return violf("depth-not-reset", "the follow-up top-level call was announced as a nested frame: call depth did not return to 0")
		}
	}
	if !started {
		return violf("depth-not-reset", "the follow-up top-level call was not announced by CaptureStart")
	}
	if d := checkBalanced(rec); d != "" {
		return violf("unbalanced", "%s", d)
	}
	nontrivial := journalOps > 0 || artelaPre || exceptional
	labels := []string{"family:" + sc.Note, "fork:" + sc.Fork}
	if journalOps > 0 {
		labels = append(labels, "journal-op-executed")
	}
	if artelaPre {
		labels = append(labels, "artela-precompile-reached")
	}
	if gov != nil && gov.maxReads > 1000 {
		labels = append(labels, "instruction-with->1000-state-reads")
	}
	// operand classes of executed journal instructions
	for i := range rec.Evs {
		e := &rec.Evs[i]
		if e.K != EvStep || !(e.Op >= RSVJNAL && e.Op <= VRJNAL) || len(e.Stack) == 0 {
			continue
		}
		top := e.Stack[len(e.Stack)-1]
		if (e.Op == RSVJNAL || e.Op == VSVJNAL) && top.IsUint64() && top.Uint64()+32 > uint64(e.MemLen) {
			labels = append(labels, "class:pointer-past-memory")
		}
		if (e.Op == RSVJNAL || e.Op == VSVJNAL) && !top.IsUint64() {
			labels = append(labels, "class:pointer-not-uint64")
		}
		if e.Op == VVJNAL && len(e.Stack) >= 3 {
			o, w := e.Stack[len(e.Stack)-2], e.Stack[len(e.Stack)-3]
			if o.IsUint64() && w.IsUint64() && o.Uint64() <= 31 && w.Uint64() <= 32 && o.Uint64()+w.Uint64() > 32 {
				labels = append(labels, "class:offset+width>32")
			}
		}
	}
	labels = dedup(labels)
	st.LabelN("journal-ops", journalOps)
	st.Case(sc.JSON(), nontrivial, sc, labels...)
	return nil
}

func dedup(in []string) []string {
	seen := map[string]bool{}
	var out []string
	for _, s := range in {
		if !seen[s] {
			seen[s] = true
			out = append(out, s)
		}
	}
	return out
}

func TestC03(t *testing.T)       { runProp(t, "C03", genC03, checkC03) }
func TestC03Replay(t *testing.T) { replayProp(t, "C03", checkC03) }

var _ = json.Marshal
var _ = uint256.NewInt
