package h

import (
	"bytes"
	"fmt"
	"math/big"
	"sort"
	"testing"

	"github.com/ethereum/go-ethereum/common"
	"pgregory.net/rapid"
)

// ---- C13: the balance journal brackets every value transfer --------------------

func balBytes(b *big.Int) []byte { return b.Bytes() } // minimal big-endian, empty for zero

func checkC13(sc *Scenario, st *Stats) *Violation {
	an, bad := analyseJP(sc, ArtelaOpts{})
	if bad != "" {
		// no frame analysis is possible: the VM panicked or its event stream is not well nested
		return violf("panic-or-unbalanced", "%.1500s", bad)
	}
	evs := an.art.Rec.Evs
	// expected[account][index] = collapsed sequence of observed balances
	expected := map[common.Address]map[uint64][][]byte{}
	push := func(a common.Address, idx uint64, v *big.Int) {
		if expected[a] == nil {
			expected[a] = map[uint64][][]byte{}
		}
		l := expected[a][idx]
		b := balBytes(v)
		if len(l) > 0 && bytes.Equal(l[len(l)-1], b) {
			return // an immediately repeated equal value is recorded once
		}
		expected[a][idx] = append(l, b)
	}
	transfers, zero, self, inFailed := 0, false, false, false
	for i := range evs {
		e := &evs[i]
		if e.K != EvTransfer {
			continue
		}
		// the frame this transfer belongs to is the next one opened
		var F *Frame
		for j := i + 1; j < len(evs); j++ {
			if evs[j].K == EvStart || evs[j].K == EvEnter {
				F = an.fl.Owner[j]
				break
			}
			if evs[j].K == EvTransfer || evs[j].K == EvInvEnd {
				break
			}
		}
		if F == nil {
			return violf("harness/transfer-owner", "transfer at event %d is not followed by a frame", i)
		}
		idx, ok := an.treeIdx[F]
		if !ok {
			return violf("harness/transfer-owner", "transfer at event %d belongs to a frame that is not in the call tree", i)
		}
		transfers++
		if e.Value.Sign() == 0 {
			zero = true
		}
		if e.From == e.To {
			self = true
		}
		if !F.AllOK() {
			inFailed = true
		}
		push(e.From, uint64(idx), e.BalFromBefore)
		push(e.To, uint64(idx), e.BalToBefore)
		push(e.From, uint64(idx), e.BalFromAfter)
		push(e.To, uint64(idx), e.BalToAfter)
	}
	addrs := c04Universe(sc, an.fl)
	states := an.art.EVM.Tracer().StateChanges()
	for _, a := range addrs {
		got := map[uint64][][]byte{}
		if ch := states.Balance(a); ch != nil {
			got = ch.Changes()
		}
		want := expected[a]
		var idxs []uint64
		seen := map[uint64]bool{}
		for k := range got {
			if !seen[k] {
				seen[k] = true
				idxs = append(idxs, k)
			}
		}
		for k := range want {
			if !seen[k] {
				seen[k] = true
				idxs = append(idxs, k)
			}
		}
		sort.Slice(idxs, func(i, j int) bool { return idxs[i] < idxs[j] })
		for _, k := range idxs {
			g, w := got[k], want[k]
			if len(w) == 0 && len(g) > 0 {
				return violf("extra-entry", "account %x has balance entries %x under call index %d but no transfer touched it in that call", a, g, k)
			}
			if fmt.Sprintf("%x", g) != fmt.Sprintf("%x", w) {
				return violf("balance-sequence", "account %x, call index %d: recorded balances %x, the transfers of that call saw %x (before/after, repeats collapsed)", a, k, g, w)
			}
		}
	}
	nontrivial := transfers >= 2 && (zero || self || inFailed)
	labels := []string{"fork:" + sc.Fork}
	if zero {
		labels = append(labels, "zero-value-transfer")
	}
	if self {
		labels = append(labels, "self-transfer")
	}
	if inFailed {
		labels = append(labels, "transfer-in-failed-frame")
	}
	st.LabelN("transfers", transfers)
	st.Case(sc.JSON(), nontrivial, sc, labels...)
	return nil
}

func genC13(t *rapid.T) *Scenario {
	// half of the trees also register and journal storage keys: the balance list
	// shares the per-account structures of the state-change tracer with them
	sc := GenTreeScenario(t, TreeCfg{MaxInvs: 3, Budget: 10, EmptyData: 20, ValuePct: 65, LowGasPct: 10, AllKinds: true, Journal: rapid.Bool().Draw(t, "journal")})
	if chance(t, 25, "faults") {
		sc.Faults = append(sc.Faults, Fault{Lookup: rapid.IntRange(0, 10).Draw(t, "faultat"), Text: "injected provider failure"})
	}
	return sc
}

func TestC13(t *testing.T)       { runProp(t, "C13", genC13, checkC13) }
func TestC13Replay(t *testing.T) { replayProp(t, "C13", checkC13) }
