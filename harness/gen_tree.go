package h

import (
	"math"
	"math/big"

	"github.com/ethereum/go-ethereum/common"
	"github.com/ethereum/go-ethereum/crypto"
	"pgregory.net/rapid"
)

// ---------------------------------------------------------------------------
// G-tree: scripted contracts whose frames fail only where the script (or an
// injected fault) says so. The scripts are a generator of call-tree *shapes*;
// expectations are derived from the recorded event log, not from the script.

type TreeCfg struct {
	MinFork   int // index into ForkNames (default Byzantium)
	MaxFork   int
	Contracts int  // 0: 2..4
	Budget    int  // max frames reachable from one contract (default 10)
	Journal   bool // include journal actions
	MaxInvs   int
	NoCreate  bool
	NoSelfd   bool
	AllKinds  bool // top-level entry points of all kinds (default: mostly call)
	EmptyData int  // percentage of calls with empty calldata
	ValuePct  int  // percentage of calls carrying value
	LowGasPct int  // percentage of calls with a small fixed gas
	Transient bool
	ReturnBig bool
	LogPct    int // extra probability of a LOG action
}

type treeGen struct {
	t      *rapid.T
	cfg    TreeCfg
	n      int
	fork   string
	frames []int // estimated frames reachable from contract i
	codes  [][]byte
}

const reentryMarker = 0xEE

var treeRuntime = NewAsm().Push(1).Push(7).Op(SSTORE).Op(STOP).Bytes()

func (g *treeGen) smallData(label string) []byte {
	t := g.t
	if chance(t, g.cfg.EmptyData, label+".empty") {
		return nil
	}
	n := rapid.IntRange(1, 40).Draw(t, label+".n")
	b := rapid.SliceOfN(rapid.Byte(), n, n).Draw(t, label+".b")
	if b[0] == reentryMarker {
		b[0] = 0x11
	}
	return b
}

type treeScript struct {
	a      *Asm
	g      *treeGen
	self   int // contract index (or -1 for init code of a top-level create)
	frames int
	datas  []dataSeg
	ncall  int
	init   bool
}

func (s *treeScript) t() *rapid.T { return s.g.t }

func (s *treeScript) sstore() {
	t := s.t()
	s.a.Push(uint64(rapid.IntRange(0, 5).Draw(t, "tv"))).Push(uint64(uniform(t, 0, 5, "tk"))).Op(SSTORE)
}

func (s *treeScript) log() {
	t := s.t()
	data := rapid.SliceOfN(rapid.Byte(), 0, 40).Draw(t, "logdata")
	s.a.MstoreBytes(0x200, data)
	s.a.Push(uint64(rapid.IntRange(0, 9).Draw(t, "logtopic"))).Push(len(data)).Push(0x200).Op(LOG0 + 1)
}

func (s *treeScript) scribble() {
	t := s.t()
	s.a.Push(genWord(t, "scrw")).Push(uint64(rapid.IntRange(0, 0x80).Draw(t, "scro"))).Op(MSTORE)
}

func (s *treeScript) transient() {
	t := s.t()
	if rapid.Bool().Draw(t, "trw") {
		s.a.Push(uint64(rapid.IntRange(0, 3).Draw(t, "trv"))).Push(uint64(uniform(t, 0, 2, "trk"))).Op(TSTORE)
	} else {
		s.a.Push(uint64(uniform(t, 0, 2, "trk"))).Op(TLOAD).Push(uint64(8 + uniform(t, 0, 1, "trs"))).Op(SSTORE)
	}
}

// call emits a call of a generated kind to a generated target.
func (s *treeScript) call() {
	t := s.t()
	g := s.g
	kind := []byte{CALL, CALL, CALL, CALL, DELEGATECALL, CALLCODE, STATICCALL}[uniform(t, 0, 6, "ckind")]
	// target: a later contract (keeps the call graph acyclic), a re-entrant call
	// into an earlier one (short path), an EOA, a missing account or a precompile
	var to common.Address
	data := g.smallData("cdata")
	sub := 1
	lo := s.self + 1
	if s.self < 0 {
		lo = 0
	}
	switch r := uniform(t, 0, 9, "ctarget"); {
	case r < 6 && lo < g.n:
		j := uniform(t, lo, g.n-1, "cto")
		if s.frames+g.frames[j] > g.cfg.Budget {
			// over budget: degrade to a leaf target
			to = EOAAddr
		} else {
			to = ContractAddrs[j]
			sub = g.frames[j]
		}
	case r < 7 && s.self >= 0:
		j := uniform(t, 0, s.self, "creenter")
		to = ContractAddrs[j]
		data = append([]byte{reentryMarker}, rapid.SliceOfN(rapid.Byte(), 0, 8).Draw(t, "creenterdata")...)
	case r < 8:
		to = pickAddr(t, "cleaf", EOAAddr, NoAddr, EOA2Addr)
	case r < 9:
		to = common.BytesToAddress([]byte{byte(pickInt(t, "cpre", 2, 4, 4))})
	default:
		to = pickAddr(t, "cleaf2", EOAAddr, NoAddr)
	}
	s.frames += sub
	inOff := uint64(pickInt(t, "cinoff", 0, 0, 0x20, 0x40))
	outOff := uint64(pickInt(t, "coutoff", 0x100, 0, 0x20, 0x10)) // often overlapping the argument window
	outLen := uint64(pickInt(t, "coutlen", 0, 0x20, 0x40, 5))
	s.a.MstoreBytes(int(inOff), data)
	s.a.Push(outLen).Push(outOff).Push(len(data)).Push(inOff)
	if kind == CALL || kind == CALLCODE {
		v := uint64(0)
		if chance(t, g.cfg.ValuePct, "cvalue") {
			v = uint64(pickInt(t, "cvaluev", 1, 7, 100, 1, 5000000))
		}
		s.a.Push(v)
	}
	s.a.Push(to[:])
	if chance(t, g.cfg.LowGasPct, "clowgas") {
		s.a.Push(uint64(pickInt(t, "clowgasv", 0, 100, 2300, 5000, 30000, 60000)))
	} else {
		s.a.Op(GAS)
	}
	s.a.Op(kind)
	s.ncall++
	// what the caller does with the success flag
	switch uniform(t, 0, 2, "cafter") {
	case 0:
		s.a.Op(POP)
	default:
		s.a.Push(uint64(0x40 + s.ncall)).Op(SSTORE)
	}
	if chance(t, 30, "crd") {
		// copy return data somewhere (only what is available)
		s.a.Op(RETURNDATASIZE).Push(0).Push(uint64(pickInt(t, "crdoff", 0, 0x20, 0x60))).Op(RETURNDATACOPY)
	}
}

func (s *treeScript) create() {
	t := s.t()
	g := s.g
	sub := &treeScript{a: NewAsm(), g: g, self: s.self, frames: 1, init: true}
	if s.self < 0 {
		sub.self = -1
	}
	sub.frames = 1
	n := rapid.IntRange(0, 3).Draw(t, "initn")
	for i := 0; i < n; i++ {
		sub.action(false)
	}
	switch uniform(t, 0, 8, "initend") {
	case 6:
		// returned code starts with 0xEF: rejected from London on (EIP-3541), after the
		// init code ran to its end
		sub.a.Push(0xEF).Push(0).Op(MSTORE8).Push(uint64(pickInt(t, "eflen", 1, 2, 32))).Push(0).Op(RETURN)
	case 7:
		// more code than EIP-170 allows (24577 bytes): rejected from Spurious Dragon on
		sub.a.Push(24577).Push(0).Op(RETURN)
	case 8:
		// code whose deposit (200 gas per byte) may exceed what is left
		sub.a.Push(uint64(pickInt(t, "deplen", 500, 3000, 12000))).Push(0).Op(RETURN)
	case 0, 1, 2:
		rt := treeRuntime
		sub.a.Push(len(rt)).PushLabel("rt").Push(0).Op(CODECOPY)
		sub.a.Push(len(rt)).Push(0).Op(RETURN)
		sub.datas = append(sub.datas, dataSeg{"rt", rt})
	case 3:
		sub.a.RevertBytes([]byte("init reverted"))
	case 4:
		sub.a.Op(INVALID)
	default:
		sub.a.Op(STOP) // empty code
	}
	for _, d := range sub.datas {
		sub.a.Mark(d.label).Raw(d.data)
	}
	init := sub.a.Bytes()
	if s.frames+sub.frames > g.cfg.Budget {
		return
	}
	s.frames += sub.frames
	label := s.a.NewLabel()
	s.datas = append(s.datas, dataSeg{label, init})
	s.a.Push(len(init)).PushLabel(label).Push(0x300).Op(CODECOPY)
	v := uint64(0)
	if chance(t, g.cfg.ValuePct, "crvalue") {
		v = uint64(pickInt(t, "crvaluev", 1, 9, 5000000))
	}
	if forkIndex(g.fork) >= 5 && rapid.Bool().Draw(t, "cr2") {
		s.a.Push(uint64(rapid.IntRange(0, 1).Draw(t, "crsalt"))).Push(len(init)).Push(0x300).Push(v).Op(CREATE2)
	} else {
		s.a.Push(len(init)).Push(0x300).Push(v).Op(CREATE)
	}
	s.ncall++
	switch uniform(t, 0, 2, "crafter") {
	case 0:
		s.a.Op(POP)
	case 1:
		s.a.Push(uint64(0x40 + s.ncall)).Op(SSTORE)
	default:
		// call the new contract
		s.a.Push(0).Push(0).Push(0).Push(0).Push(0).Op(DUP1+5, GAS, CALL, POP, POP)
	}
}

func (s *treeScript) action(allowCreate bool) {
	t := s.t()
	g := s.g
	r := uniform(t, 0, 19, "act")
	if g.cfg.Journal && chance(t, 35, "jact") {
		journalSnippet(t, s.a)
		return
	}
	if g.cfg.LogPct > 0 && chance(t, g.cfg.LogPct, "logact") {
		s.log()
		return
	}
	if chance(t, 6, "preact") {
		s.precompileCall()
		return
	}
	switch {
	case r < 5:
		s.sstore()
	case r < 7:
		s.log()
	case r < 9:
		s.scribble()
	case r < 16:
		s.call()
	case r < 18 && allowCreate && !g.cfg.NoCreate:
		s.create()
	case r < 19 && g.cfg.Transient && g.fork == "Cancun":
		s.transient()
	case g.cfg.Journal:
		journalSnippet(t, s.a)
	default:
		s.sstore()
	}
}

// precompileCall: a CALL that carries value to a standard precompile and mostly
// FAILS there (too little gas for its price, input it rejects): a failed frame like any
// other, whose value transfer and account creation have to be undone.
func (s *treeScript) precompileCall() {
	t := s.t()
	p := uint64(pickInt(t, "prep", 1, 2, 4, 6, 8, 9, 3, 5))
	v := uint64(pickInt(t, "prev", 1, 7, 0))
	n := pickInt(t, "prein", 0, 1, 64, 65, 100, 213)
	if n > 0 {
		s.a.Push(genWord(t, "prew")).Push(0x280).Op(MSTORE)
	}
	gas := uint64(pickInt(t, "pregas", 0, 0, 100, 100000))
	s.a.Push(0x20).Push(0x2c0).Push(n).Push(0x280).Push(v).Push(p).Push(gas).Op(CALL)
	s.ncall++
	s.a.Push(uint64(0x40 + s.ncall)).Op(SSTORE)
}

func (s *treeScript) ending() {
	t := s.t()
	switch r := uniform(t, 0, 11, "end"); {
	case r < 4:
		s.a.Op(STOP)
	case r < 7:
		n := rapid.IntRange(0, 70).Draw(t, "retn")
		if s.g.cfg.ReturnBig && chance(t, 20, "retbig") {
			n = 200
		}
		s.a.ReturnBytes(rapid.SliceOfN(rapid.Byte(), n, n).Draw(t, "retdata"))
	case r < 9:
		s.a.RevertBytes(rapid.SliceOfN(rapid.Byte(), 0, 40).Draw(t, "revdata"))
	case r < 10:
		s.a.Op(INVALID)
	case r < 11 && !s.g.cfg.NoSelfd:
		b := pickAddr(t, "sdto", EOAAddr, EOA2Addr, NoAddr, ContractAddrs[0])
		s.a.Push(b[:]).Op(SELFDESTRUCT)
	default:
		s.a.Op(STOP)
	}
}

func (g *treeGen) genContract(i int) []byte {
	t := g.t
	s := &treeScript{a: NewAsm(), g: g, self: i, frames: 1}
	// re-entry guard: calldata starting with the marker takes a short path
	s.a.Push(0).Op(CALLDATALOAD).Push(0).Op(BYTE).Push(reentryMarker).Op(EQ).Jumpi("short")
	n := rapid.IntRange(1, 6).Draw(t, "nacts")
	for k := 0; k < n; k++ {
		s.action(true)
	}
	s.ending()
	s.a.Label("short")
	if rapid.Bool().Draw(t, "shortstore") {
		s.a.Push(uint64(rapid.IntRange(1, 3).Draw(t, "shortv"))).Push(6).Op(SSTORE)
	}
	switch uniform(t, 0, 3, "shortend") {
	case 0, 1:
		s.a.Op(STOP)
	case 2:
		s.a.RevertBytes([]byte{0xee})
	default:
		s.a.ReturnBytes([]byte("reentered"))
	}
	for _, d := range s.datas {
		s.a.Mark(d.label).Raw(d.data)
	}
	g.frames[i] = s.frames
	return s.a.Bytes()
}

// GenTreeScenario builds a scenario of scripted, mutually calling contracts.
func GenTreeScenario(t *rapid.T, cfg TreeCfg) *Scenario {
	if cfg.MinFork == 0 {
		cfg.MinFork = 4
	}
	if cfg.MaxFork == 0 {
		cfg.MaxFork = 11
	}
	if cfg.Budget == 0 {
		cfg.Budget = 10
	}
	if cfg.MaxInvs == 0 {
		cfg.MaxInvs = 2
	}
	g := &treeGen{t: t, cfg: cfg}
	g.fork = ForkNames[uniform(t, cfg.MinFork, cfg.MaxFork, "tfork")]
	g.n = cfg.Contracts
	if g.n == 0 {
		g.n = uniform(t, 2, 4, "tn")
	}
	g.frames = make([]int, g.n)
	g.codes = make([][]byte, g.n)
	for i := g.n - 1; i >= 0; i-- {
		g.codes[i] = g.genContract(i)
	}
	sc := &Scenario{Fork: g.fork}
	for i := 0; i < g.n; i++ {
		acc := Account{Addr: ContractAddrs[i], Nonce: 1, Code: g.codes[i], Balance: hexU64(uint64(pickInt(t, "tbal", 1000, 1000, 0, 50)))}
		if chance(t, 30, "tstorage") {
			acc.Storage = map[common.Hash]common.Hash{common.BigToHash(big.NewInt(int64(uniform(t, 0, 5, "tsk")))): common.BigToHash(big.NewInt(9))}
		}
		if chance(t, 3, "tnoncemax") {
			acc.Nonce = math.MaxUint64
		}
		sc.Accounts = append(sc.Accounts, acc)
	}
	sc.Accounts = append(sc.Accounts, Account{Addr: EOAAddr, Balance: hexBig(new(big.Int).Lsh(big.NewInt(1), 80)), Nonce: 3})
	if chance(t, 5, "tcollide") {
		a := crypto.CreateAddress(ContractAddrs[0], 1)
		sc.Accounts = append(sc.Accounts, Account{Addr: a, Nonce: 1, Balance: hexU64(3)})
	}
	ninv := uniform(t, 1, cfg.MaxInvs, "tninv")
	for i := 0; i < ninv; i++ {
		inv := Invocation{Kind: "call", Origin: EOAAddr, Caller: EOAAddr, To: ContractAddrs[0], Gas: 3_000_000, JP: true}
		if chance(t, 25, "tinvto") {
			inv.To = ContractAddrs[uniform(t, 0, g.n-1, "tinvtoi")]
		}
		inv.Input = g.smallData("tinvdata")
		if chance(t, cfg.ValuePct, "tinvvalue") {
			inv.Value = hexU64(uint64(pickInt(t, "tinvvaluev", 1, 33, 1000)))
		}
		if cfg.AllKinds && chance(t, 30, "tinvkind") {
			inv.Kind = []string{"callcode", "delegatecall", "staticcall", "create", "create2"}[uniform(t, 0, 4, "tinvkindv")]
			switch inv.Kind {
			case "delegatecall", "staticcall":
				inv.Value = nil
			case "create", "create2":
				s := &treeScript{a: NewAsm(), g: g, self: -1, frames: 1}
				n := rapid.IntRange(0, 3).Draw(t, "topinitn")
				for k := 0; k < n; k++ {
					s.action(false)
				}
				s.ending()
				for _, d := range s.datas {
					s.a.Mark(d.label).Raw(d.data)
				}
				inv.Input = s.a.Bytes()
				inv.Salt = hexU64(uint64(uniform(t, 0, 1, "topsalt")))
				inv.To = common.Address{}
			}
			if inv.Kind == "callcode" || inv.Kind == "delegatecall" {
				inv.Caller = ContractAddrs[g.n-1]
			}
		}
		sc.Invs = append(sc.Invs, inv)
	}
	// a host may re-target one EVM with Reset between messages
	for i := 1; i < len(sc.Invs); i++ {
		sc.Invs[i].Reset = chance(t, 30, "reset")
	}
	return sc
}

// journalKey describes the fixed family of value keys the scripted contracts use.
type journalKey struct {
	Slot, Offset, Size, TypeID uint64
	Name                       string
}

var journalKeys = func() []journalKey {
	var out []journalKey
	for slot := uint64(0); slot < 3; slot++ {
		for _, os := range [][2]uint64{{0, 32}, {0, 4}, {4, 16}, {28, 4}, {8, 0}} {
			out = append(out, journalKey{Slot: slot, Offset: os[0], Size: os[1], TypeID: 0x1000 + slot*0x100 + os[0]*4 + os[1]%32,
				Name: string([]byte{'v', byte('0' + slot), '_', byte('a' + os[0]), byte('a' + os[1]%32)})})
		}
	}
	return out
}()

// journalSnippet emits (optionally) a store to a slot, a well-formed key
// registration and a value journal for one key of the family.
func journalSnippet(t *rapid.T, a *Asm) {
	k := journalKeys[uniform(t, 0, len(journalKeys)-1, "jkey")]
	if chance(t, 70, "jstore") {
		a.Push(genWord(t, "jval")).Push(k.Slot).Op(SSTORE)
	}
	emitRegisterValueVar(a, k.Name, k.Slot, k.Offset, k.TypeID)
	n := 1
	if chance(t, 25, "jtwice") {
		n = 2 // immediate repeat of an equal value
	}
	for i := 0; i < n; i++ {
		emitJournalValue(a, k.Slot, k.Offset, k.Size, k.TypeID)
	}
}

// emitRegisterValueVar: VSVJNAL(stateVarNamePtr, slot, offset, typeId) - operands popped in this order.
func emitRegisterValueVar(a *Asm, name string, slot, offset, typeID uint64) {
	// name in memory at 0x380: length word, then bytes
	a.Push(len(name)).Push(0x380).Op(MSTORE)
	var w [32]byte
	copy(w[:], name)
	a.PushBytes(w[:]).Push(0x3a0).Op(MSTORE)
	a.Push(typeID).Push(offset).Push(slot).Push(0x380).Op(VSVJNAL)
}

// emitJournalValue: VVJNAL(slot, offset, typeSize, typeId)
func emitJournalValue(a *Asm, slot, offset, size, typeID uint64) {
	a.Push(typeID).Push(size).Push(offset).Push(slot).Op(VVJNAL)
}
