package h

import (
	"encoding/json"
	"math/big"
	"os"
	"sort"

	"github.com/ethereum/go-ethereum/common"
	"github.com/ethereum/go-ethereum/common/hexutil"
	"github.com/ethereum/go-ethereum/params"
)

// Forks in chronological order. Cancun is only meaningful on the Artela side.
var ForkNames = []string{"Frontier", "Homestead", "TangerineWhistle", "SpuriousDragon", "Byzantium",
	"Constantinople", "Petersburg", "Istanbul", "Berlin", "London", "Merge", "Shanghai", "Cancun"}

func forkIndex(name string) int {
	for i, n := range ForkNames {
		if n == name {
			return i
		}
	}
	panic("unknown fork " + name)
}

const scenBlockNumber = 1000
const scenTime = 1000

// ChainConfigFor builds a chain configuration in which exactly the forks up to
// and including `fork` are active at block scenBlockNumber / time scenTime.
func ChainConfigFor(fork string) *params.ChainConfig {
	idx := forkIndex(fork)
	z := big.NewInt(0)
	c := &params.ChainConfig{ChainID: big.NewInt(1337)}
	on := func(i int) *big.Int {
		if idx >= i {
			return z
		}
		return nil
	}
	c.HomesteadBlock = on(1)
	c.EIP150Block = on(2)
	c.EIP155Block = on(3)
	c.EIP158Block = on(3)
	c.ByzantiumBlock = on(4)
	c.ConstantinopleBlock = on(5)
	c.PetersburgBlock = on(6)
	if idx == 5 {
		// a nil Petersburg block would count as "forked together with Constantinople"
		c.PetersburgBlock = big.NewInt(1 << 30)
	}
	c.IstanbulBlock = on(7)
	c.MuirGlacierBlock = on(7)
	c.BerlinBlock = on(8)
	c.LondonBlock = on(9)
	c.ArrowGlacierBlock = on(9)
	c.GrayGlacierBlock = on(9)
	if idx >= 10 {
		c.MergeNetsplitBlock = z
		c.TerminalTotalDifficulty = z
		c.TerminalTotalDifficultyPassed = true
	}
	if idx >= 11 {
		t := uint64(0)
		c.ShanghaiTime = &t
	}
	if idx >= 12 {
		t := uint64(0)
		c.CancunTime = &t
	}
	return c
}

func forkIsMerge(fork string) bool { return forkIndex(fork) >= 10 }

type Account struct {
	Addr    common.Address              `json:"addr"`
	Balance *hexutil.Big                `json:"balance,omitempty"`
	Nonce   uint64                      `json:"nonce,omitempty"`
	Code    hexutil.Bytes               `json:"code,omitempty"`
	Storage map[common.Hash]common.Hash `json:"storage,omitempty"`
}

type AccessTuple struct {
	Address common.Address `json:"address"`
	Keys    []common.Hash  `json:"keys,omitempty"`
}

// Invocation is one top-level entry-point call ("transaction").
type Invocation struct {
	Kind   string         `json:"kind"` // call, callcode, delegatecall, staticcall, create, create2
	Origin common.Address `json:"origin"`
	Caller common.Address `json:"caller"`
	To     common.Address `json:"to"`
	Input  hexutil.Bytes  `json:"input,omitempty"` // calldata or init code
	Value  *hexutil.Big   `json:"value,omitempty"`
	Gas    uint64         `json:"gas"`
	Salt   *hexutil.Big   `json:"salt,omitempty"`
	Access []AccessTuple  `json:"access,omitempty"`
	// JP: join points enabled for this invocation (Artela only).
	JP bool `json:"jp"`
	// Reset: the host re-targets the EVM with EVM.Reset (same transaction context and
	// state) before this invocation, after it has set the join-point switch
	Reset bool `json:"reset,omitempty"`
}

// AspectBinding binds an aspect double to (contract, point cut).
type AspectBinding struct {
	Contract common.Address `json:"contract"`
	Pre      []AspectSpec   `json:"pre,omitempty"`
	Post     []AspectSpec   `json:"post,omitempty"`
}

// AspectSpec describes one WAT-built aspect double.
type AspectSpec struct {
	Burn uint64 `json:"burn"` // loop iterations
	End  string `json:"end"`  // "ok", "trap", "revert"
}

// Fault makes the provider double fail the n-th lookup (0-based, counted per scenario run).
type Fault struct {
	Lookup int    `json:"lookup"`
	Text   string `json:"text,omitempty"`
	// Aspect, if set, makes the provider return this (failing) aspect double at
	// that lookup instead of an error.
	Aspect *AspectSpec `json:"aspect,omitempty"`
}

type Scenario struct {
	Fork      string          `json:"fork"`
	ExtraEips []int           `json:"extraEips,omitempty"`
	Accounts  []Account       `json:"accounts"`
	Invs      []Invocation    `json:"invs"`
	Bindings  []AspectBinding `json:"bindings,omitempty"`
	Faults    []Fault         `json:"faults,omitempty"`
	Note      string          `json:"note,omitempty"`
	// Extra carries property-specific data of a case (opaque to the executors).
	Extra json.RawMessage `json:"extra,omitempty"`
}

func (s *Scenario) JSON() []byte {
	b, err := json.Marshal(s)
	if err != nil {
		panic(err)
	}
	return b
}

func (s *Scenario) Clone() *Scenario {
	var c Scenario
	if err := json.Unmarshal(s.JSON(), &c); err != nil {
		panic(err)
	}
	return &c
}

func LoadScenario(path string) (*Scenario, error) {
	b, err := os.ReadFile(path)
	if err != nil {
		return nil, err
	}
	var s Scenario
	if err := json.Unmarshal(b, &s); err != nil {
		return nil, err
	}
	return &s, nil
}

func bigOf(h *hexutil.Big) *big.Int {
	if h == nil {
		return new(big.Int)
	}
	return new(big.Int).Set((*big.Int)(h))
}

func hexBig(b *big.Int) *hexutil.Big { return (*hexutil.Big)(new(big.Int).Set(b)) }
func hexU64(x uint64) *hexutil.Big   { return (*hexutil.Big)(new(big.Int).SetUint64(x)) }

// Universe returns the sorted set of addresses mentioned by the scenario.
func (s *Scenario) Universe() []common.Address {
	m := map[common.Address]bool{}
	for _, a := range s.Accounts {
		m[a.Addr] = true
	}
	for _, i := range s.Invs {
		m[i.Caller] = true
		m[i.To] = true
		m[i.Origin] = true
	}
	out := make([]common.Address, 0, len(m))
	for a := range m {
		out = append(out, a)
	}
	sort.Slice(out, func(i, j int) bool { return string(out[i][:]) < string(out[j][:]) })
	return out
}
