package h

import (
	"encoding/json"
	"flag"
	"fmt"
	"os"
	"testing"

	"pgregory.net/rapid"
)

var flagCase = flag.String("case", "", "replay: path of a saved case (JSON)")

// runProp drives one property with rapid: gen draws a case, check decides it.
func runProp[T any](t *testing.T, prop string, gen func(*rapid.T) T, check func(T, *Stats) *Violation) {
	st := NewStats(prop)
	defer st.Dump()
	rapid.Check(t, func(rt *rapid.T) {
		c := gen(rt)
		SaveLast(prop, c)
		v := check(c, st)
		if v != nil {
			if IsKnownOpen(prop, v.Fingerprint) {
				st.KnownHit(v.Fingerprint)
				return
			}
			SaveFail(prop, c, v.Error())
			rt.Fatalf("property %s violated: %s", prop, v.Error())
		}
	})
}

// replayProp re-runs a saved case through the same check, without rapid.
func replayProp[T any](t *testing.T, prop string, check func(T, *Stats) *Violation) {
	if *flagCase == "" {
		t.Skip("no -case given")
	}
	b, err := os.ReadFile(*flagCase)
	if err != nil {
		t.Fatalf("read case: %v", err)
	}
	var c T
	if err := json.Unmarshal(b, &c); err != nil {
		t.Fatalf("decode case: %v", err)
	}
	st := NewStats(prop)
	v := check(c, st)
	if v != nil {
		fmt.Printf("REPLAY-FAIL property=%s fingerprint=%s\n%s\n", prop, v.Fingerprint, v.Msg)
		t.Fatalf("property %s violated on replay: %s", prop, v.Error())
	}
	fmt.Printf("REPLAY-OK property=%s\n", prop)
}

func tierIsThorough() bool { return os.Getenv("VERIF_TIER") == "thorough" }
