package h

import (
	"bytes"
	"encoding/json"
	"fmt"
	"math/big"
	"testing"

	"github.com/ethereum/go-ethereum/common"
	"github.com/ethereum/go-ethereum/common/hexutil"
	"github.com/ethereum/go-ethereum/crypto"
	"github.com/holiman/uint256"
	"pgregory.net/rapid"
)

// ---- C09: journaled values equal the decoded storage content ---------------------

type c09Extra struct {
	Kind   string        `json:"kind"` // value | ref
	Slot   common.Hash   `json:"slot"`
	Offset *hexutil.Big  `json:"offset,omitempty"`
	Width  *hexutil.Big  `json:"width,omitempty"`
	TypeID uint64        `json:"typeId"`
	Name   string        `json:"name"`
	Note   string        `json:"note,omitempty"`
	Depth  int           `json:"depth"`         // 0: executed by the top frame, 1: through a CALL, 2: DELEGATECALL
	Str    hexutil.Bytes `json:"str,omitempty"` // informational (the oracle decodes the pre-state)
	// further rounds (valid cases only): the slot is overwritten with the word and
	// the same journal instruction runs again, in the same frame
	Rounds []common.Hash `json:"rounds,omitempty"`
}

const c09Marker = 0x99

// refDecodeString decodes a Solidity bytes/string from storage, written from the
// Solidity documentation ("Layout of State Variables in Storage: bytes and string").
func refDecodeString(storage map[common.Hash]common.Hash, slot common.Hash) (content []byte, valid bool) {
	w := storage[slot]
	if w[31]&1 == 0 {
		// short: data in the high-order bytes, lowest byte = length*2
		n := int(w[31]) / 2
		if n >= 32 {
			return nil, false
		}
		return append([]byte{}, w[:n]...), true
	}
	// long: slot holds length*2+1, data at keccak256(slot), keccak256(slot)+1, ...
	l := new(big.Int).SetBytes(w[:])
	l.Rsh(l, 1)
	if !l.IsUint64() || l.Uint64() < 32 {
		return nil, false
	}
	n := l.Uint64()
	base := new(big.Int).SetBytes(crypto.Keccak256(slot[:]))
	var out []byte
	for i := uint64(0); uint64(len(out)) < n; i++ {
		k := common.BigToHash(new(big.Int).Add(base, new(big.Int).SetUint64(i)))
		v := storage[k]
		out = append(out, v[:]...)
	}
	return out[:n], true
}

// refDecodeField: the packed field (offset, width) of a storage word; offset
// counts bytes from the low-order end.
func refDecodeField(w common.Hash, off, width *big.Int) ([]byte, bool) {
	if !off.IsUint64() || !width.IsUint64() || off.Uint64() > 31 || width.Uint64() > 32 || off.Uint64()+width.Uint64() > 32 {
		return nil, false
	}
	o, n := off.Uint64(), width.Uint64()
	return append([]byte{}, w[32-o-n:32-o]...), true
}

func checkC09(sc *Scenario, st *Stats) *Violation {
	var ex c09Extra
	if err := json.Unmarshal(sc.Extra, &ex); err != nil {
		return violf("harness/extra", "%v", err)
	}
	target := ContractAddrs[0]
	var storage map[common.Hash]common.Hash
	for _, a := range sc.Accounts {
		if a.Addr == target {
			storage = a.Storage
		}
	}
	if storage == nil {
		storage = map[common.Hash]common.Hash{}
	}
	art := RunArtela(sc, ArtelaOpts{Debug: true, Slots: []common.Hash{common.BigToHash(big.NewInt(c09Marker))}})
	if art.Obs[0].Panic != "" {
		return violf("panic", "%s %s: the VM panicked: %.1500s", ex.Kind, ex.Note, art.Obs[0].Panic)
	}
	states := art.EVM.Tracer().StateChanges()
	slotU := new(uint256.Int).SetBytes(ex.Slot[:])
	typeHash := common.BigToHash(new(big.Int).SetUint64(ex.TypeID))
	var want []byte
	var valid bool
	var offPtr *uint256.Int
	if ex.Kind == "value" {
		want, valid = refDecodeField(storage[ex.Slot], bigOf(ex.Offset), bigOf(ex.Width))
		o, _ := uint256.FromBig(bigOf(ex.Offset))
		if o.IsUint64() && o.Uint64() <= 31 {
			offPtr = o
		} else {
			offPtr = uint256.NewInt(0) // the key was registered at offset 0 (see generator)
		}
	} else {
		want, valid = refDecodeString(storage, ex.Slot)
	}
	// further rounds: what the LAST journal instruction saw
	var seq [][]byte
	if valid && len(ex.Rounds) > 0 {
		seq = append(seq, want)
		cur := map[common.Hash]common.Hash{}
		for k, v := range storage {
			cur[k] = v
		}
		for _, w := range ex.Rounds {
			cur[ex.Slot] = w
			var b []byte
			var ok bool
			if ex.Kind == "value" {
				b, ok = refDecodeField(w, bigOf(ex.Offset), bigOf(ex.Width))
			} else {
				b, ok = refDecodeString(cur, ex.Slot)
			}
			if !ok {
				return violf("harness/rounds", "round word %x does not decode", w)
			}
			seq = append(seq, b)
		}
		want = seq[len(seq)-1]
	}
	// did the frame that executed the journal instruction continue?
	continued := art.Obs[0].Accts[target].Storage[common.BigToHash(big.NewInt(c09Marker))] == common.BigToHash(big.NewInt(1))
	// which call index? the innermost CALL frame executing the instruction
	idx := uint64(0)
	if ex.Depth >= 1 {
		idx = 1
	}
	bySlot, err := states.Slot(target, slotU, offPtr, typeHash)
	if err != nil {
		return violf("harness/slot", "Slot lookup failed: %v", err)
	}
	byName := states.Variable(target, ex.Name)
	last := func(c interface{ Changes() map[uint64][][]byte }) ([]byte, bool) {
		l := c.Changes()[idx]
		if len(l) == 0 {
			return nil, false
		}
		return l[len(l)-1], true
	}
	var gotS, gotN []byte
	var okS, okN bool
	if bySlot != nil {
		gotS, okS = last(bySlot)
	}
	if byName != nil {
		gotN, okN = last(byName)
	}
	desc := fmt.Sprintf("%s key slot=%x offset=%v width=%v (%s)", ex.Kind, ex.Slot, ex.Offset, ex.Width, ex.Note)
	if valid {
		if !continued {
			return violf(ex.Kind+"/valid-rejected", "%s: valid operands, but the instruction made the frame fail (%q)", desc, art.Obs[0].Err)
		}
		if !okS || !okN {
			return violf(ex.Kind+"/not-recorded", "%s: nothing recorded (by slot: %v, by name: %v)", desc, okS, okN)
		}
		if !bytes.Equal(gotS, want) || !bytes.Equal(gotN, want) {
			if len(seq) > 0 {
				return violf(ex.Kind+"/stale-after-rounds", "%s: after %d journal steps over contents %x the last recorded value is %x (by name %x), the storage content at the last step decodes to %x", desc, len(seq), seq, gotS, gotN, want)
			}
			return violf(ex.Kind+"/wrong-bytes", "%s: recorded %x (by name %x), the storage content decodes to %x", desc, gotS, gotN, want)
		}
		if len(seq) > 0 {
			// the whole list of this call: the contents in order, immediate repeats once
			var exp [][]byte
			for _, b := range seq {
				if len(exp) == 0 || !bytes.Equal(exp[len(exp)-1], b) {
					exp = append(exp, b)
				}
			}
			got := bySlot.Changes()[idx]
			if fmt.Sprintf("%x", got) != fmt.Sprintf("%x", exp) {
				return violf(ex.Kind+"/sequence", "%s: recorded list %x, the instruction saw %x in this order", desc, got, exp)
			}
		}
	} else {
		if continued {
			return violf(ex.Kind+"/invalid-accepted", "%s: operands/encoding invalid, but the instruction succeeded", desc)
		}
		if okS || okN {
			return violf(ex.Kind+"/invalid-recorded", "%s: invalid, yet something was recorded: %x / %x", desc, gotS, gotN)
		}
	}
	nontrivial := !valid
	if ex.Kind == "value" && valid {
		o, w := bigOf(ex.Offset).Uint64(), bigOf(ex.Width).Uint64()
		nontrivial = o > 0 && w != 0 && w != 32
	}
	if ex.Kind == "ref" && valid {
		nontrivial = len(want) >= 31 || (len(want) > 0 && want[0] == 0)
	}
	labels := []string{"kind:" + ex.Kind, "fork:" + sc.Fork, "depth:" + fmt.Sprint(ex.Depth)}
	if valid {
		labels = append(labels, "valid")
	} else {
		labels = append(labels, "invalid")
	}
	if ex.Kind == "ref" && valid {
		switch n := len(want); {
		case n == 0:
			labels = append(labels, "len:0")
		case n < 31:
			labels = append(labels, "len:1-30")
		case n == 31:
			labels = append(labels, "len:31")
		case n == 32:
			labels = append(labels, "len:32")
		case n <= 64:
			labels = append(labels, "len:33-64")
		default:
			labels = append(labels, "len:>64")
		}
		if len(want) > 0 && want[0] == 0 {
			labels = append(labels, "leading-zero-byte")
		}
	}
	labels = append(labels, "note:"+ex.Note)
	if len(seq) > 0 {
		labels = append(labels, fmt.Sprintf("rounds:%d", len(ex.Rounds)))
	}
	st.Case(sc.JSON(), nontrivial, sc, labels...)
	return nil
}

func genSlot(t *rapid.T) common.Hash {
	switch uniform(t, 0, 3, "slotk") {
	case 0:
		return common.BigToHash(big.NewInt(int64(rapid.IntRange(0, 20).Draw(t, "slotsmall"))))
	case 1:
		return crypto.Keccak256Hash(rapid.SliceOfN(rapid.Byte(), 1, 8).Draw(t, "slotpre"))
	case 2:
		// leading zero bytes, then random
		var h common.Hash
		n := rapid.IntRange(1, 31).Draw(t, "slotlz")
		copy(h[n:], rapid.SliceOfN(rapid.Byte(), 32-n, 32-n).Draw(t, "slotlzb"))
		return h
	default:
		return common.BytesToHash(rapid.SliceOfN(rapid.Byte(), 32, 32).Draw(t, "slotrand"))
	}
}

func writeName(a *Asm, name string) {
	a.Push(len(name)).Push(0x380).Op(MSTORE)
	for i := 0; i < len(name); i += 32 {
		var w [32]byte
		copy(w[:], name[i:])
		a.PushBytes(w[:]).Push(0x3a0 + i).Op(MSTORE)
	}
}

func genC09(t *rapid.T) *Scenario {
	ex := c09Extra{Slot: genSlot(t), TypeID: uint64(rapid.IntRange(1, 1<<20).Draw(t, "typeid")), Depth: uniform(t, 0, 2, "depth")}
	ex.Name = []string{"x", "balance", "a_rather_long_state_variable_name_over_32_bytes"}[uniform(t, 0, 2, "name")]
	storage := map[common.Hash]common.Hash{}
	a := NewAsm()
	slotU := new(uint256.Int).SetBytes(ex.Slot[:])
	if rapid.Bool().Draw(t, "isvalue") {
		ex.Kind = "value"
		var w common.Hash
		switch uniform(t, 0, 3, "wordk") {
		case 0:
			copy(w[:], rapid.SliceOfN(rapid.Byte(), 32, 32).Draw(t, "word"))
		case 1:
			for i := range w {
				w[i] = 0xff
			}
		case 2:
			w[rapid.IntRange(0, 31).Draw(t, "sparsei")] = byte(rapid.IntRange(1, 255).Draw(t, "sparsev"))
		default:
			for i := range w {
				w[i] = byte(i + 1)
			}
		}
		storage[ex.Slot] = w
		var off, width *big.Int
		switch r := uniform(t, 0, 9, "fieldk"); {
		case r < 6:
			o := rapid.IntRange(0, 31).Draw(t, "off")
			wd := rapid.IntRange(1, 32-o).Draw(t, "width")
			off, width, ex.Note = big.NewInt(int64(o)), big.NewInt(int64(wd)), "valid"
		case r < 7:
			// offset out of range
			off = pickBig(t, "offbad", "32", "33", "255", "256", "18446744073709551616", "57896044618658097711785492504343953926634992332820282019728792003956564819968")
			width, ex.Note = big.NewInt(int64(rapid.IntRange(1, 32).Draw(t, "width2"))), "offset>31"
		case r < 8:
			off = big.NewInt(int64(rapid.IntRange(0, 31).Draw(t, "off3")))
			width = pickBig(t, "widthbad", "33", "64", "255", "4294967296", "18446744073709551616", "115792089237316195423570985008687907853269984665640564039457584007913129639935")
			ex.Note = "width>32"
		default:
			// offset + width beyond the word
			o := rapid.IntRange(1, 31).Draw(t, "off4")
			wd := rapid.IntRange(32-o+1, 32).Draw(t, "width4")
			off, width, ex.Note = big.NewInt(int64(o)), big.NewInt(int64(wd)), "offset+width>32"
		}
		ex.Offset, ex.Width = hexBig(off), hexBig(width)
		regOff := new(big.Int).Set(off)
		if !off.IsUint64() || off.Uint64() > 31 {
			regOff = big.NewInt(0)
		}
		writeName(a, ex.Name)
		a.Push(ex.TypeID).Push(regOff).Push(slotU).Push(0x380).Op(VSVJNAL)
		a.Push(ex.TypeID).Push(width).Push(off).Push(slotU).Op(VVJNAL)
	} else {
		ex.Kind = "ref"
		var content []byte
		n := []int{0, 1, 5, 30, 31, 32, 33, 40, 63, 64, 65, 100, 130}[uniform(t, 0, 12, "strlenk")]
		if chance(t, 30, "strlenr") {
			n = rapid.IntRange(0, 130).Draw(t, "strlen")
		}
		switch uniform(t, 0, 3, "contentk") {
		case 0, 1:
			content = rapid.SliceOfN(rapid.Byte(), n, n).Draw(t, "content")
		case 2:
			content = make([]byte, n) // all zero
		default:
			content = rapid.SliceOfN(rapid.Byte(), n, n).Draw(t, "content2")
			for i := 0; i < n && i < rapid.IntRange(1, 3).Draw(t, "nlead"); i++ {
				content[i] = 0
			}
		}
		ex.Str = content
		ex.Note = "valid"
		var w common.Hash
		base := new(big.Int).SetBytes(crypto.Keccak256(ex.Slot[:]))
		putData := func(c []byte) {
			for i := 0; i*32 < len(c); i++ {
				var d common.Hash
				copy(d[:], c[i*32:])
				if rem := len(c) - i*32; rem < 32 && chance(t, 30, "dirtytail") {
					copy(d[rem:], bytes.Repeat([]byte{0xdd}, 32-rem)) // dirty bytes after the end
				}
				storage[common.BigToHash(new(big.Int).Add(base, big.NewInt(int64(i))))] = d
			}
			// neighbours that must NOT be read
			storage[common.BigToHash(new(big.Int).Add(base, big.NewInt(int64((len(c)+31)/32))))] = common.HexToHash("0xeeeeeeeeeeeeeeeeeeeeeeeeeeeeeeeeeeeeeeeeeeeeeeeeeeeeeeeeeeeeeeeeee")
		}
		switch r := uniform(t, 0, 9, "enck"); {
		case r < 7:
			if n < 32 {
				copy(w[:], content)
				if chance(t, 20, "dirtyshort") && n < 31 {
					w[30] = 0xdd
				}
				w[31] = byte(2 * n)
			} else {
				w = common.BigToHash(big.NewInt(int64(2*n + 1)))
				putData(content)
			}
		case r < 8:
			// short encoding whose length field says >= 32
			copy(w[:], content)
			w[31] = byte(2 * rapid.IntRange(32, 127).Draw(t, "badshort"))
			ex.Note = "short-encoding-length>=32"
		case r < 9:
			// long encoding whose length is < 32
			w = common.BigToHash(big.NewInt(int64(2*rapid.IntRange(0, 31).Draw(t, "badlong") + 1)))
			putData(content)
			ex.Note = "long-encoding-length<32"
		default:
			// long encoding of a short-but-valid length with data present (a valid long string of 32..130 bytes)
			m := rapid.IntRange(32, 130).Draw(t, "longlen")
			content = rapid.SliceOfN(rapid.Byte(), m, m).Draw(t, "longcontent")
			w = common.BigToHash(big.NewInt(int64(2*m + 1)))
			putData(content)
			ex.Str = content
		}
		storage[ex.Slot] = w
		writeName(a, ex.Name)
		a.Push(ex.TypeID).Push(slotU).Push(0x380).Op(RSVJNAL)
		a.Push(ex.TypeID).Push(slotU).Op(VRJNAL)
	}
	if ex.Note == "valid" && chance(t, 35, "rounds") {
		// alternating contents: A, B, A ... (the journal keeps one list per call)
		w0 := storage[ex.Slot]
		var alt common.Hash
		if ex.Kind == "value" {
			copy(alt[:], rapid.SliceOfN(rapid.Byte(), 32, 32).Draw(t, "altword"))
		} else {
			c := rapid.SliceOfN(rapid.Byte(), 0, 31).Draw(t, "altstr")
			copy(alt[:], c)
			alt[31] = byte(2 * len(c))
		}
		pat := [][]int{{1, 0}, {1, 0, 1}, {0}, {1}, {1, 1, 0}, {0, 1, 0}}[uniform(t, 0, 5, "roundpat")]
		for _, p := range pat {
			w := w0
			if p == 1 {
				w = alt
			}
			ex.Rounds = append(ex.Rounds, w)
			a.PushBytes(w[:]).Push(slotU).Op(SSTORE)
			if ex.Kind == "value" {
				a.Push(ex.TypeID).Push(bigOf(ex.Width)).Push(bigOf(ex.Offset)).Push(slotU).Op(VVJNAL)
			} else {
				a.Push(ex.TypeID).Push(slotU).Op(VRJNAL)
			}
		}
	}
	a.Push(1).Push(c09Marker).Op(SSTORE).Op(STOP)
	sc := &Scenario{Fork: ForkNames[uniform(t, 0, 12, "fork")]}
	target := ContractAddrs[0]
	sc.Accounts = []Account{{Addr: target, Nonce: 1, Code: a.Bytes(), Storage: storage}, {Addr: EOAAddr, Balance: hexU64(1 << 40), Nonce: 1}}
	inv := Invocation{Kind: "call", Origin: EOAAddr, Caller: EOAAddr, To: target, Gas: 2_000_000, JP: rapid.Bool().Draw(t, "jp")}
	if ex.Depth >= 1 {
		// a proxy calls the target (depth 1) or the target's code is reached through a
		// proxy that the target DELEGATECALLs into itself (depth 2)
		proxy := ContractAddrs[1]
		p := NewAsm()
		p.Push(0).Push(0).Push(0).Push(0).Push(0).Push(target[:]).Push(20000).Op(GAS, SUB, CALL).Op(POP, STOP) // margin: before EIP-150 asking for all gas is an error
		sc.Accounts = append(sc.Accounts, Account{Addr: proxy, Nonce: 1, Code: p.Bytes()})
		inv.To = proxy
		if ex.Depth == 2 && forkIndex(sc.Fork) >= 1 {
			// target code moves to a library; the target DELEGATECALLs it, so the
			// storage context (and the journal account) stays the target
			lib := ContractAddrs[2]
			sc.Accounts[0].Code = NewAsm().Push(0).Push(0).Push(0).Push(0).Push(lib[:]).Push(20000).Op(GAS, SUB, DELEGATECALL).Op(POP, STOP).Bytes()
			sc.Accounts = append(sc.Accounts, Account{Addr: lib, Nonce: 1, Code: a.Bytes()})
		} else if ex.Depth == 2 {
			ex.Depth = 1
		}
	}
	sc.Invs = []Invocation{inv}
	sc.Extra, _ = json.Marshal(ex)
	return sc
}

func pickBig(t *rapid.T, label string, vals ...string) *big.Int {
	v, _ := new(big.Int).SetString(vals[uniform(t, 0, len(vals)-1, label)], 10)
	return v
}

func TestC09(t *testing.T)       { runProp(t, "C09", genC09, checkC09) }
func TestC09Replay(t *testing.T) { replayProp(t, "C09", checkC09) }
