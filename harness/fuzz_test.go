package h

import (
	"encoding/binary"
	"encoding/json"
	"math/big"
	"testing"

	"github.com/ethereum/go-ethereum/common"
	"github.com/ethereum/go-ethereum/crypto"
	"github.com/holiman/uint256"
)

// Coverage-guided stages (thorough tier): Go's native fuzzer mutates the raw
// bytes; the target decodes them into a structured case and runs the SAME oracle
// as the rapid property. A failing case is saved as scenario JSON (the replay file).

func fuzzVerdict(t *testing.T, prop string, sc *Scenario, v *Violation) {
	if v == nil || IsKnownOpen(prop, v.Fingerprint) {
		return
	}
	SaveFail(prop, sc, v.Error())
	t.Fatalf("property %s violated: %s", prop, v.Error())
}

func FuzzC14(f *testing.F) {
	valid := append(append(append(word32(big.NewInt(64)), word32(big.NewInt(128))...), append(word32(big.NewInt(3)), common.RightPadBytes([]byte("key"), 32)...)...), append(word32(big.NewInt(5)), common.RightPadBytes([]byte("value"), 32)...)...)
	f.Add(valid, byte(2), byte(0), byte(1), byte(0), false)
	f.Add(make([]byte, 128), byte(2), byte(2), byte(0), byte(0), false)
	hostile := append([]byte{}, valid...)
	binary.BigEndian.PutUint64(hostile[24:32], ^uint64(0)-31)
	f.Add(hostile, byte(2), byte(3), byte(2), byte(1), false)
	f.Add(append(make([]byte, 20), []byte("some-key")...), byte(0), byte(0), byte(1), byte(0), true)
	f.Add(make([]byte, 33), byte(1), byte(1), byte(3), byte(0), false)
	f.Fuzz(func(t *testing.T, payload []byte, target, kind, depth, gasSel byte, hostErr bool) {
		if len(payload) > 2048 {
			return
		}
		ex := c14Extra{Target: 0x64 + target%3, Kind: []byte{CALL, CALLCODE, DELEGATECALL, STATICCALL}[kind%4], Depth: int(depth % 4),
			GasArg: []uint64{100000, 5000, 4999, 5001, 0}[gasSel%5], HostValue: payload[:min(len(payload), 40)], HostErr: hostErr, Delegated: depth&4 != 0 && depth%4 > 0}
		sc := buildC14(ex, c14Forks[int(gasSel/5)%len(c14Forks)], payload, kind&4 != 0)
		fuzzVerdict(t, "C14", sc, checkC14(sc, NewStats("C14")))
	})
}

func FuzzC09(f *testing.F) {
	f.Add([]byte("hello world"), []byte{1}, uint8(0), uint8(32), false, uint8(12))
	f.Add(make([]byte, 31), []byte{0, 0, 7}, uint8(4), uint8(16), true, uint8(11))
	f.Add(make([]byte, 64), make([]byte, 32), uint8(31), uint8(1), false, uint8(0))
	f.Fuzz(func(t *testing.T, content, slotBytes []byte, off, width uint8, isValue bool, forkSel uint8) {
		if len(content) > 200 || len(slotBytes) > 32 {
			return
		}
		ex := c09Extra{Slot: common.BytesToHash(slotBytes), TypeID: 7, Name: "x", Depth: 0, Note: "fuzz"}
		storage := map[common.Hash]common.Hash{}
		a := NewAsm()
		slotU := new(uint256.Int).SetBytes(ex.Slot[:])
		if isValue {
			if width == 0 {
				return
			}
			ex.Kind = "value"
			storage[ex.Slot] = common.BytesToHash(common.RightPadBytes(content, 32)[:32])
			o, w := big.NewInt(int64(off)), big.NewInt(int64(width))
			ex.Offset, ex.Width = hexBig(o), hexBig(w)
			reg := new(big.Int).Set(o)
			if off > 31 {
				reg = big.NewInt(0)
			}
			writeName(a, ex.Name)
			a.Push(ex.TypeID).Push(reg).Push(slotU).Push(0x380).Op(VSVJNAL)
			a.Push(ex.TypeID).Push(w).Push(o).Push(slotU).Op(VVJNAL)
		} else {
			ex.Kind = "ref"
			n := len(content)
			var w common.Hash
			if width%4 == 3 {
				// raw word from the input (valid or invalid encodings, bounded length field)
				copy(w[:], common.RightPadBytes(content, 32))
				if w[31]&1 == 1 {
					for i := 0; i < 30; i++ {
						// keep the stored length below 2^15: huge lengths are C20's open finding, and
						// an input that runs for seconds gets the fuzz worker killed (10 s guard)
						w[i] = 0
					}
				}
			} else if n < 32 {
				copy(w[:], content)
				w[31] = byte(2 * n)
			} else {
				w = common.BigToHash(big.NewInt(int64(2*n + 1)))
			}
			base := new(big.Int).SetBytes(crypto.Keccak256(ex.Slot[:]))
			for i := 0; i*32 < n; i++ {
				var d common.Hash
				copy(d[:], content[i*32:])
				storage[common.BigToHash(new(big.Int).Add(base, big.NewInt(int64(i))))] = d
			}
			storage[ex.Slot] = w
			writeName(a, ex.Name)
			a.Push(ex.TypeID).Push(slotU).Push(0x380).Op(RSVJNAL)
			a.Push(ex.TypeID).Push(slotU).Op(VRJNAL)
		}
		a.Push(1).Push(c09Marker).Op(SSTORE).Op(STOP)
		sc := &Scenario{Fork: ForkNames[int(forkSel)%len(ForkNames)]}
		sc.Accounts = []Account{{Addr: ContractAddrs[0], Nonce: 1, Code: a.Bytes(), Storage: storage}, {Addr: EOAAddr, Balance: hexU64(1 << 40), Nonce: 1}}
		sc.Invs = []Invocation{{Kind: "call", Origin: EOAAddr, Caller: EOAAddr, To: ContractAddrs[0], Gas: 2_000_000, JP: forkSel&64 != 0}}
		sc.Extra, _ = json.Marshal(ex)
		fuzzVerdict(t, "C09", sc, checkC09(sc, NewStats("C09")))
	})
}

// FuzzC03: raw bytes as contract code (and as calldata) over hostile storage; all entry points.
func FuzzC03(f *testing.F) {
	f.Add([]byte{0x60, 0x01, 0x61, 0x03, 0x80, 0x52, 0x61, 0x50, 0x00, 0x61, 0x10, 0x00, 0x61, 0x03, 0x80, 0xe0, 0x61, 0x50, 0x00, 0x61, 0x10, 0x00, 0xe7, 0x00}, []byte{1}, uint8(0), uint8(11), uint64(81))
	f.Add([]byte{0x7f, 0xff, 0xff, 0xff, 0xff, 0xff, 0xff, 0xff, 0xff, 0xff, 0xff, 0xff, 0xff, 0xff, 0xff, 0xff, 0xff, 0xff, 0xff, 0xff, 0xff, 0xff, 0xff, 0xff, 0xff, 0xff, 0xff, 0xff, 0xff, 0xff, 0xff, 0xff, 0xff, 0x60, 0x00, 0x60, 0x00, 0xe0}, []byte{}, uint8(1), uint8(8), uint64(3))
	f.Add([]byte{0x60, 0x80, 0x60, 0x00, 0x60, 0x00, 0x60, 0x00, 0x60, 0x66, 0x5a, 0xf4, 0x00}, make([]byte, 160), uint8(2), uint8(9), uint64(0))
	f.Fuzz(func(t *testing.T, code, data []byte, kindSel, forkSel uint8, word uint64) {
		if len(code) == 0 || len(code) > 600 || len(data) > 400 {
			return
		}
		if word > 1<<17 && word&1 == 1 {
			word &= 1<<17 - 1 // stored string lengths beyond 2^16: C20's open finding, excluded here
		}
		st := map[common.Hash]common.Hash{}
		for _, s := range []int64{0, 1, 2, 0x1000, 0x1001, 0x7000} {
			st[common.BigToHash(big.NewInt(s))] = common.BigToHash(new(big.Int).SetUint64(word))
		}
		sc := &Scenario{Fork: ForkNames[int(forkSel)%len(ForkNames)], Note: "fuzz"}
		sc.Accounts = []Account{{Addr: ContractAddrs[0], Nonce: 1, Code: code, Balance: hexU64(100), Storage: st}, {Addr: EOAAddr, Balance: hexU64(1 << 40), Nonce: 1}}
		kinds := []string{"call", "callcode", "delegatecall", "staticcall", "create", "create2"}
		inv := Invocation{Kind: kinds[int(kindSel)%6], Origin: EOAAddr, Caller: EOAAddr, To: ContractAddrs[0], Gas: 300000, JP: kindSel&8 != 0, Input: data}
		if inv.Kind == "create" || inv.Kind == "create2" {
			inv.Input = code
			inv.Salt = hexU64(1)
		}
		if inv.Kind == "callcode" || inv.Kind == "delegatecall" {
			inv.Caller = ContractAddrs[0]
		}
		sc.Invs = []Invocation{inv, {Kind: "call", Origin: EOAAddr, Caller: EOAAddr, To: EOA2Addr, Gas: 50000, JP: true}}
		fuzzVerdict(t, "C03", sc, checkC03(sc, NewStats("C03")))
	})
}

// fuzzStdScenario: two contracts whose code are the raw fuzz bytes, the first
// invoked by an EOA; standard forks only (the reference has no Cancun).
func fuzzStdScenario(code, code2, data []byte, forkSel, sel byte, gas uint32) *Scenario {
	sc := &Scenario{Fork: ForkNames[int(forkSel)%12], Note: "fuzz"}
	st := map[common.Hash]common.Hash{}
	for i := int64(0); i < 3; i++ {
		st[common.BigToHash(big.NewInt(i))] = common.BigToHash(big.NewInt(i + int64(sel&3)))
	}
	sc.Accounts = []Account{
		{Addr: ContractAddrs[0], Nonce: 1, Code: code, Balance: hexU64(1000), Storage: st},
		{Addr: ContractAddrs[1], Nonce: 1, Code: code2, Balance: hexU64(uint64(sel >> 6)), Storage: st},
		{Addr: ContractAddrs[2], Nonce: 0}, // exists, empty
		{Addr: EOAAddr, Balance: hexU64(1 << 40), Nonce: 1}}
	inv := Invocation{Kind: "call", Origin: EOAAddr, Caller: EOAAddr, To: ContractAddrs[0], Gas: 30000 + uint64(gas%2_000_000), JP: sel&4 != 0, Input: data, Value: hexU64(uint64(sel>>3) & 3)}
	if sel&32 != 0 {
		inv.Kind, inv.Input = "create", code
	}
	sc.Invs = []Invocation{inv}
	return sc
}

func fuzzStdSeeds(f *testing.F) {
	B := ContractAddrs[1]
	prog := func(build func(a *Asm)) []byte { a := NewAsm(); build(a); return a.Bytes() }
	callee := prog(func(a *Asm) {
		a.Op(CALLVALUE).Push(1).Op(SSTORE).Push(7).Push(0).Op(MSTORE).Push(32).Push(0).Op(RETURN)
	})
	for _, kind := range []byte{CALL, CALLCODE, DELEGATECALL, STATICCALL} {
		k := kind
		f.Add(prog(func(a *Asm) {
			a.Push(32).Push(0).Push(4).Push(0)
			if k == CALL || k == CALLCODE {
				a.Push(1)
			}
			a.Push(B[:]).Op(GAS, k).Push(2).Op(SSTORE).Op(RETURNDATASIZE).Push(0).Push(64).Op(RETURNDATACOPY).Push(32).Push(64).Op(LOG0)
		}), callee, []byte{1, 2, 3, 4}, byte(11), byte(0), uint32(500000))
	}
	// create with a value, revert in the callee, selfdestruct, precompile with aliasing windows
	f.Add(prog(func(a *Asm) {
		a.Push(0x6001600055).Push(0).Op(MSTORE).Push(5).Push(27).Push(1).Op(CREATE).Op(EXTCODESIZE).Push(3).Op(SSTORE)
	}), callee, []byte{}, byte(6), byte(8), uint32(900000))
	f.Add(prog(func(a *Asm) { a.Push(1).Push(1).Op(SSTORE).Push(0).Push(0).Op(REVERT) }), callee, []byte{}, byte(4), byte(0), uint32(100000))
	f.Add(prog(func(a *Asm) { a.Push(B[:]).Op(SELFDESTRUCT) }), callee, []byte{}, byte(2), byte(0), uint32(100000))
	f.Add(prog(func(a *Asm) {
		a.Push(0xabcdef).Push(0).Op(MSTORE).Push(32).Push(1).Push(32).Push(0).Push(0).Push(4).Op(GAS, CALL).Push(1).Op(MLOAD).Push(0).Op(SSTORE)
	}), callee, []byte{}, byte(9), byte(0), uint32(100000))
}

// FuzzC01: raw bytes as code of two contracts, differential against go-ethereum
// v1.12.0 (outcome, post-state, logs; metamorphic over tracer / join-point switches).
func FuzzC01(f *testing.F) {
	fuzzStdSeeds(f)
	f.Fuzz(func(t *testing.T, code, code2, data []byte, forkSel, sel byte, gas uint32) {
		if len(code) == 0 || len(code) > 400 || len(code2) > 200 || len(data) > 200 {
			return
		}
		sc := fuzzStdScenario(code, code2, data, forkSel, sel, gas)
		fuzzVerdict(t, "C01", sc, checkC01(sc, NewStats("C01")))
	})
}

// FuzzC02: the same cases, gas at every step against the reference.
func FuzzC02(f *testing.F) {
	fuzzStdSeeds(f)
	f.Fuzz(func(t *testing.T, code, code2, data []byte, forkSel, sel byte, gas uint32) {
		if len(code) == 0 || len(code) > 400 || len(code2) > 200 || len(data) > 200 {
			return
		}
		sc := fuzzStdScenario(code, code2, data, forkSel, sel, gas)
		_, _, v := gasCompare(sc, NewStats("C02"))
		fuzzVerdict(t, "C02", sc, v)
	})
}

// FuzzC18: the same cases under an inherited tracer chosen by the input.
func FuzzC18(f *testing.F) {
	fuzzStdSeeds(f)
	f.Fuzz(func(t *testing.T, code, code2, data []byte, forkSel, sel byte, gas uint32) {
		if len(code) == 0 || len(code) > 400 || len(code2) > 200 || len(data) > 200 {
			return
		}
		sc := fuzzStdScenario(code, code2, data, forkSel, sel, gas)
		var ex c18Extra
		cfg := map[string]bool{}
		switch gas % 7 {
		case 0, 1:
			ex.Tracer = "callTracer"
			cfg["withLog"], cfg["onlyTopCall"] = gas&8 == 0, gas&16 != 0
		case 2, 3:
			ex.Tracer = "flatCallTracer"
			cfg["convertParityErrors"], cfg["includePrecompiles"] = gas&8 != 0, gas&16 != 0
		case 4:
			ex.Tracer = "prestateTracer"
			cfg["diffMode"] = gas&8 != 0
		case 5:
			ex.Tracer = "struct"
			ex.SL.EnableMemory, ex.SL.EnableReturnData = gas&8 != 0, gas&16 != 0
		default:
			ex.Tracer = ""
		}
		if len(cfg) > 0 {
			ex.Cfg, _ = json.Marshal(cfg)
		}
		sc.Extra, _ = json.Marshal(ex)
		fuzzVerdict(t, "C18", sc, checkC18(sc, NewStats("C18")))
	})
}
