package h

import (
	"bytes"
	"encoding/json"
	"fmt"
	"os"
	"sort"
	"strings"
	"testing"

	avm "github.com/artela-network/artela-evm/vm"
	"github.com/ethereum/go-ethereum/common"
	"github.com/holiman/uint256"
	"pgregory.net/rapid"
)

// ---- C16: equal executions produce byte-identical results and tracer views ---------

type c16Extra struct {
	Reps  int       `json:"reps"`
	Other *Scenario `json:"other,omitempty"` // unrelated scenario interleaved between repetitions
}

func dumpKeyOrdered(sb *strings.Builder, st *avm.StateChanges, acct common.Address, k *avm.StorageKey, path []string, depth int, listLens *int) {
	fmt.Fprintf(sb, "%q slot=%v off=%d type=%d changes=%s\n", path, k.Slot(), k.Offset(), k.NodeType(), dumpChanges(k.Changes()))
	idx := k.ChildrenIndices() // in the order returned
	kids := k.Children()
	name, ix := pathBytes(path)
	ioc := st.IndicesOfChanges(acct, name, ix...)
	fmt.Fprintf(sb, "  childrenIndices=%x\n  indicesOfChanges=%x\n  children=", idx, ioc)
	for _, c := range kids {
		fmt.Fprintf(sb, "(%v,%d)", c.Slot(), c.Offset())
	}
	sb.WriteByte('\n')
	if len(idx) > *listLens {
		*listLens = len(idx)
	}
	if depth < 3 {
		// recurse in a canonical order (the ORDER of the lists above is what is under test)
		sorted := sortedIdx(idx)
		for _, s := range sorted {
			if c := st.FindKeyIndices(acct, name, append(append([][]byte{}, ix...), []byte(s))...); c != nil {
				dumpKeyOrdered(sb, st, acct, c, append(append([]string{}, path...), s), depth+1, listLens)
			}
		}
	}
}

// c16Dump renders everything observable after a run, lists in returned order.
func c16Dump(sc *Scenario, r *ArtelaRun, addrs []common.Address, names []string) (string, int) {
	var sb strings.Builder
	maxList := 0
	for i := range r.Obs {
		fmt.Fprintf(&sb, "inv %d: %s\n", i, r.Obs[i].Outcome())
	}
	ct := r.EVM.Tracer().CallTree()
	for i := 0; ; i++ {
		c := ct.FindCall(uint64(i))
		if c == nil {
			break
		}
		fmt.Fprintf(&sb, "call %d parent=%d from=%x to=%v value=%v gas=%v data=%x ret=%x rem=%d err=%v children=%v\n", i, c.ParentIndex(), c.From, c.To, c.Value, c.Gas, c.Data, c.Ret, c.RemainingGas, c.Err, c.ChildrenIndices())
		if len(c.Children) > maxList {
			maxList = len(c.Children)
		}
	}
	st := r.EVM.Tracer().StateChanges()
	for _, a := range addrs {
		fmt.Fprintf(&sb, "acct %x balance=%s\n", a, dumpChanges(st.Balance(a)))
		for _, n := range names {
			if k := st.FindKeyIndices(a, n); k != nil {
				dumpKeyOrdered(&sb, st, a, k, []string{n}, 0, &maxList)
			}
		}
		for _, jk := range append(append(append([]*jFamKey{}, jTopValue...), jTopRef...), jNested...) {
			var off *uint256.Int
			if !jk.Ref {
				off = uint256.NewInt(jk.Offset)
			}
			ch, err := st.Slot(a, uint256.NewInt(jk.Slot), off, common.BigToHash(uint256.NewInt(jk.TypeID).ToBig()))
			if ch != nil || err != nil {
				fmt.Fprintf(&sb, "slot %x/%d/%x: %s %v\n", jk.Slot, jk.Offset, jk.TypeID, dumpChanges(ch), err)
			}
		}
	}
	return sb.String(), maxList
}

func c16Names() []string {
	var out []string
	for _, k := range jTopValue {
		out = append(out, k.Name)
	}
	for _, k := range jTopRef {
		out = append(out, k.Name)
	}
	sort.Strings(out)
	return out
}

func checkC16(sc *Scenario, st *Stats) *Violation {
	var ex c16Extra
	_ = json.Unmarshal(sc.Extra, &ex)
	if ex.Reps < 2 {
		ex.Reps = 8
	}
	names := c16Names()
	var first string
	var addrs []common.Address
	maxList := 0
	for rep := 0; rep < ex.Reps; rep++ {
		r := RunArtela(sc, ArtelaOpts{Debug: rep%2 == 0})
		for i := range r.Obs {
			if r.Obs[i].Panic != "" {
				return violf("panic", "repetition %d, invocation %d: the VM panicked: %.1500s", rep, i, r.Obs[i].Panic)
			}
		}
		if addrs == nil {
			fl, _ := BuildFrames(r.Rec.Evs)
			addrs = c04Universe(sc, fl)
		}
		d, ml := c16Dump(sc, r, addrs, names)
		if ml > maxList {
			maxList = ml
		}
		if rep == 0 {
			first = d
		} else if d != first {
			return violf("nondeterministic", "repetition %d of the same transaction on equal pre-state differs from the first run:\n%s", rep, firstDiff(first, d))
		}
		// an unrelated execution in between, on its own EVM, must not leak into / out of this one
		if ex.Other != nil {
			o := RunArtela(ex.Other, ArtelaOpts{Debug: true})
			ost := o.EVM.Tracer().StateChanges()
			// what the other execution touched itself (its byte-code may address anything)
			touched := map[common.Address]bool{}
			for _, oa := range ex.Other.Universe() {
				touched[oa] = true
			}
			for i := range o.Rec.Evs {
				e := &o.Rec.Evs[i]
				switch e.K {
				case EvStart, EvEnter, EvTransfer:
					touched[e.From], touched[e.To] = true, true
				case EvStep:
					touched[e.Addr] = true
				}
			}
			for _, a := range addrs {
				foreign := !touched[a]
				if !foreign {
					continue
				}
				if ost.Balance(a) != nil {
					return violf("leak", "the tracer of an unrelated EVM instance has balance entries for %x", a)
				}
				for _, n := range names {
					if ost.FindKeyIndices(a, n) != nil {
						return violf("leak", "the tracer of an unrelated EVM instance knows key %q of account %x", n, a)
					}
				}
			}
		}
	}
	nontrivial := maxList >= 2
	labels := []string{"fork:" + sc.Fork, fmt.Sprintf("maxlist:%d", maxList)}
	st.Case(sc.JSON(), nontrivial, sc, labels...)
	return nil
}

func firstDiff(a, b string) string {
	la, lb := strings.Split(a, "\n"), strings.Split(b, "\n")
	for i := 0; i < len(la) && i < len(lb); i++ {
		if la[i] != lb[i] {
			return fmt.Sprintf("line %d\n first: %.400s\n later: %.400s", i, la[i], lb[i])
		}
	}
	return fmt.Sprintf("lengths differ: %d vs %d lines", len(la), len(lb))
}

// genC16: scripted contracts that register several members under the same
// parent key (so that the returned lists have several elements) and call each other.
func genC16(t *rapid.T) *Scenario {
	fork := ForkNames[uniform(t, 4, 12, "fork")]
	n := uniform(t, 1, 3, "ncontracts")
	sc := &Scenario{Fork: fork}
	for i := 0; i < n; i++ {
		a := NewAsm()
		c := &codeGen{a: a, g: &progGen{t: t}}
		nblocks := rapid.IntRange(2, 8).Draw(t, "nblocks")
		for b := 0; b < nblocks; b++ {
			var k *jFamKey
			switch r := uniform(t, 0, 9, "kfam"); {
			case r < 6:
				k = jNested[uniform(t, 0, len(jNested)-1, "jn")]
			case r < 8:
				k = jTopRef[uniform(t, 0, len(jTopRef)-1, "jr")]
			default:
				k = jTopValue[uniform(t, 0, len(jTopValue)-1, "jt")]
			}
			if !k.Ref && rapid.Bool().Draw(t, "store") {
				a.Push(uint64(rapid.IntRange(0, 9).Draw(t, "val"))).Push(k.Slot).Op(SSTORE)
			}
			c.registerKey(k)
			c.journalChange(k)
			if chance(t, 25, "callother") && n > 1 {
				to := ContractAddrs[uniform(t, 0, n-1, "to")]
				kind := []byte{CALL, DELEGATECALL}[uniform(t, 0, 1, "kind")]
				a.Push(0).Push(0).Push(0).Push(0)
				if kind == CALL {
					a.Push(uint64(uniform(t, 0, 1, "v")))
				}
				a.Push(to[:]).Push(3).Op(GAS, DIV, kind, POP)
			}
		}
		a.Op(STOP)
		sc.Accounts = append(sc.Accounts, Account{Addr: ContractAddrs[i], Nonce: 1, Code: a.Bytes(), Balance: hexU64(100),
			Storage: journalPrestate(func(m int) int { return uniform(t, 0, m-1, "jpre") })})
	}
	sc.Accounts = append(sc.Accounts, Account{Addr: EOAAddr, Balance: hexU64(1 << 40), Nonce: 1})
	ninv := uniform(t, 1, 2, "ninv")
	for i := 0; i < ninv; i++ {
		sc.Invs = append(sc.Invs, Invocation{Kind: "call", Origin: EOAAddr, Caller: EOAAddr, To: ContractAddrs[uniform(t, 0, n-1, "invto")], Gas: 2_000_000, JP: rapid.Bool().Draw(t, "jp"), Value: hexU64(uint64(uniform(t, 0, 2, "invv")))})
	}
	ex := c16Extra{Reps: 8}
	if tierIsThorough() {
		ex.Reps = 32
	}
	if chance(t, 50, "other") {
		// unrelated scenario on other addresses
		o := GenTreeScenario(t, TreeCfg{MaxInvs: 1, Budget: 5, Journal: true, ValuePct: 30})
		for i := range o.Accounts {
			if o.Accounts[i].Addr[0] == 0xc0 {
				o.Accounts[i].Addr[1] = 0x77
			}
		}
		// calls inside that scenario still target the original addresses (now code-less): fine, it only has to be unrelated
		for i := range o.Invs {
			if o.Invs[i].To[0] == 0xc0 {
				o.Invs[i].To[1] = 0x77
			}
		}
		ex.Other = o
	}
	sc.Extra, _ = json.Marshal(ex)
	return sc
}

func TestC16(t *testing.T) { runProp(t, "C16", genC16, checkC16) }
func TestC16Replay(t *testing.T) {
	if *flagCase != "" {
		if b, err := os.ReadFile(*flagCase); err == nil && bytes.Contains(b, []byte(`"family"`)) {
			replayProp(t, "C16", checkC16Tx)
			return
		}
	}
	replayProp(t, "C16", checkC16)
}
