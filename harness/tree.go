package h

import (
	"fmt"
	"math/big"

	"github.com/ethereum/go-ethereum/common"
	"github.com/holiman/uint256"
)

// ---------------------------------------------------------------------------
// Frame tree reconstructed from the debug-tracer event log (independent of the
// call tree the code under test records).

type Frame struct {
	Idx      int
	Inv      int
	Kind     byte // CALL, CALLCODE, DELEGATECALL, STATICCALL, CREATE, CREATE2
	Top      bool
	Create   bool
	From, To common.Address
	Input    []byte
	Value    *big.Int
	Gas      uint64
	OpenEv   int
	CloseEv  int
	Err      string
	ErrIs    error
	Output   []byte
	GasUsed  uint64
	Parent   *Frame
	Children []*Frame
	IssueEv  int // index of the issuing CALL*/CREATE* step in the parent (-1 for top level)
	First    int // first step event of this frame (-1 if none)
	Last     int // last step/fault event of this frame (-1 if none)
	Static   bool
	Storage  common.Address // address whose storage the frame operates on
	Depth    int
}

func (f *Frame) Failed() bool { return f.Err != "" }

// AncestorsOK reports whether the frame and all its ancestors ended without error.
func (f *Frame) AllOK() bool {
	for x := f; x != nil; x = x.Parent {
		if x.Err != "" {
			return false
		}
	}
	return true
}

type FrameLog struct {
	Frames []*Frame
	// Owner[i] = innermost frame open at event i (nil at transaction level)
	Owner []*Frame
	Tops  []*Frame
}

// BuildFrames reconstructs the frame tree. It fails (harness error) when the
// stream is not balanced - C18 checks that separately.
func BuildFrames(evs []Ev) (*FrameLog, error) {
	fl := &FrameLog{Owner: make([]*Frame, len(evs))}
	var stack []*Frame
	inv := -1
	lastStep := map[*Frame]int{}
	for i := range evs {
		e := &evs[i]
		var cur *Frame
		if len(stack) > 0 {
			cur = stack[len(stack)-1]
		}
		switch e.K {
		case EvInvBegin:
			inv = int(e.PC)
			if len(stack) != 0 {
				return nil, fmt.Errorf("event %d: invocation begins with open frames", i)
			}
		case EvStart, EvEnter:
			f := &Frame{Idx: len(fl.Frames), Inv: inv, From: e.From, To: e.To, Input: e.Input, Value: e.Value, Gas: e.Gas, OpenEv: i, CloseEv: -1,
				Parent: cur, IssueEv: -1, First: -1, Last: -1, Storage: e.To, Depth: len(stack)}
			if e.K == EvStart {
				f.Top = true
				f.Create = e.Create
				f.Kind = CALL
				if e.Create {
					f.Kind = CREATE
				}
			} else {
				f.Kind = e.Typ
				f.Create = e.Typ == CREATE || e.Typ == CREATE2
				f.Top = cur == nil
			}
			if cur != nil {
				f.Static = cur.Static
				cur.Children = append(cur.Children, f)
				if ls, ok := lastStep[cur]; ok {
					f.IssueEv = ls
				}
			} else {
				fl.Tops = append(fl.Tops, f)
			}
			if f.Kind == STATICCALL {
				f.Static = true
			}
			if f.Kind == DELEGATECALL || f.Kind == CALLCODE {
				f.Storage = e.From
			}
			fl.Frames = append(fl.Frames, f)
			stack = append(stack, f)
			fl.Owner[i] = f
			continue
		case EvEnd, EvExit:
			if cur == nil {
				return nil, fmt.Errorf("event %d: %s without open frame", i, e.K)
			}
			cur.CloseEv = i
			cur.Err = e.Err
			cur.ErrIs = e.ErrIs
			cur.Output = e.Output
			cur.GasUsed = e.GasUsed
			fl.Owner[i] = cur
			stack = stack[:len(stack)-1]
			continue
		case EvStep, EvFault:
			if cur == nil {
				return nil, fmt.Errorf("event %d: step without open frame", i)
			}
			if cur.First < 0 {
				cur.First = i
			}
			cur.Last = i
			if e.K == EvStep {
				lastStep[cur] = i
			}
		case EvInvEnd:
			if len(stack) != 0 {
				return nil, fmt.Errorf("event %d: invocation ends with %d open frames", i, len(stack))
			}
		}
		fl.Owner[i] = cur
	}
	return fl, nil
}

// ---------------------------------------------------------------------------
// Call attempts as seen in the instruction stream (C07/C08/C10).

type Attempt struct {
	Ev       int // index of the issuing step (-1: top-level invocation)
	Op       byte
	Top      bool
	Inv      int
	Issuer   *Frame // frame executing the instruction (nil at top level)
	From     common.Address
	To       *common.Address
	Value    *uint256.Int
	Gas      uint64 // gas supplied to the callee (known from Enter; for refused calls from the caller-side arithmetic)
	GasKnown bool
	Data     []byte
	Frame    *Frame // the frame that was entered, nil when refused up front
	// outcome as seen by the caller
	Ret      []byte
	RetKnown bool
	Failed   bool // caller saw 0 / an error
	Returned uint64
	RetGasOK bool // Returned is known
	ErrText  string
	ErrKnown bool
	Precomp  bool
	Tree     bool // recorded in the call tree (CALL/CREATE/CREATE2 and top-level call/create)
}

func memWindow(mem []byte, off, size uint64) []byte {
	out := make([]byte, size)
	if off < uint64(len(mem)) {
		copy(out, mem[off:])
	}
	return out
}

// opPushesCallResult tells whether op is a frame-issuing instruction recorded in the call tree.
func isTreeOp(op byte) bool { return op == CALL || op == CREATE || op == CREATE2 }

// BuildAttempts derives, from the instruction stream alone, the list of call
// attempts that the call tree must contain, in program order.
func BuildAttempts(sc *Scenario, evs []Ev, fl *FrameLog, obs []Obs) []*Attempt {
	return buildAttempts(sc, evs, fl, obs, false)
}

// BuildAllAttempts also lists CALLCODE / DELEGATECALL / STATICCALL attempts
// (Tree == false), which the call tree does not record.
func BuildAllAttempts(sc *Scenario, evs []Ev, fl *FrameLog, obs []Obs) []*Attempt {
	return buildAttempts(sc, evs, fl, obs, true)
}

func isCallKind(op byte) bool {
	return op == CALL || op == CALLCODE || op == DELEGATECALL || op == STATICCALL
}

func buildAttempts(sc *Scenario, evs []Ev, fl *FrameLog, obs []Obs, allKinds bool) []*Attempt {
	var out []*Attempt
	byFrame := map[*Frame]*Attempt{}
	eip150 := forkIndex(sc.Fork) >= 2
	inv := -1
	for i := range evs {
		e := &evs[i]
		if e.K == EvInvBegin {
			inv = int(e.PC)
			in := &sc.Invs[inv]
			if in.Kind == "call" || in.Kind == "create" || in.Kind == "create2" {
				a := &Attempt{Ev: -1, Top: true, Tree: true, Inv: inv, From: in.Caller, Gas: in.Gas, GasKnown: true, Data: append([]byte{}, in.Input...)}
				a.Value, _ = uint256.FromBig(bigOf(in.Value))
				a.Op = CALL
				if in.Kind == "call" {
					to := in.To
					a.To = &to
				} else {
					a.Op = CREATE
				}
				o := &obs[inv]
				a.Ret, a.RetKnown = o.Ret, true
				a.Failed = o.Err != ""
				a.Returned, a.RetGasOK = o.Gas, true
				a.ErrText, a.ErrKnown = o.Err, true
				// the frame (if any) is the first top frame of this invocation
				for _, f := range fl.Tops {
					if f.Inv == inv {
						a.Frame = f
						byFrame[f] = a
						break
					}
				}
				out = append(out, a)
			}
			continue
		}
		if e.K != EvStep || !(isTreeOp(e.Op) || (allKinds && isCallKind(e.Op))) || e.Err != "" {
			continue
		}
		if i+1 < len(evs) && evs[i+1].K == EvFault && evs[i+1].Depth == e.Depth && evs[i+1].PC == e.PC {
			continue // the instruction itself was refused (e.g. write protection): no call was attempted
		}
		F := fl.Owner[i]
		n := len(e.Stack)
		a := &Attempt{Ev: i, Op: e.Op, Inv: inv, Issuer: F, From: e.Addr, Tree: isTreeOp(e.Op)}
		var off, size uint256.Int
		switch e.Op {
		case CALL:
			if n < 7 {
				continue
			}
			to := common.Address(e.Stack[n-2].Bytes20())
			a.To = &to
			a.Value = new(uint256.Int).Set(&e.Stack[n-3])
			off, size = e.Stack[n-4], e.Stack[n-5]
		case CALLCODE:
			if n < 7 {
				continue
			}
			to := common.Address(e.Stack[n-2].Bytes20())
			a.To = &to
			a.Value = new(uint256.Int).Set(&e.Stack[n-3])
			off, size = e.Stack[n-4], e.Stack[n-5]
		case DELEGATECALL, STATICCALL:
			if n < 6 {
				continue
			}
			to := common.Address(e.Stack[n-2].Bytes20())
			a.To = &to
			a.Value = new(uint256.Int)
			off, size = e.Stack[n-3], e.Stack[n-4]
		case CREATE:
			if n < 3 {
				continue
			}
			a.Value = new(uint256.Int).Set(&e.Stack[n-1])
			off, size = e.Stack[n-2], e.Stack[n-3]
		case CREATE2:
			if n < 4 {
				continue
			}
			a.Value = new(uint256.Int).Set(&e.Stack[n-1])
			off, size = e.Stack[n-2], e.Stack[n-3]
		}
		if size.IsUint64() && size.Uint64() < 1<<22 && (size.IsZero() || off.IsUint64()) {
			a.Data = memWindow(e.Mem, off.Uint64(), size.Uint64())
			if e.Mem == nil && e.MemLen > 0 {
				a.Data = nil // memory not kept
			}
		}
		// the frame entered for this attempt: the child of F whose IssueEv is i
		if F != nil {
			for _, c := range F.Children {
				if c.IssueEv == i && (c.Kind == e.Op) {
					a.Frame = c
					byFrame[c] = a
					break
				}
			}
		}
		nxt := nextInFrame(evs, i)
		if nxt >= 0 && evs[nxt].K == EvStep || nxt >= 0 && evs[nxt].K == EvFault {
			ne := &evs[nxt]
			if len(ne.Stack) > 0 {
				a.Failed = ne.Stack[len(ne.Stack)-1].IsZero()
			}
			avail := e.Gas - e.Cost
			if e.Op != CREATE && e.Op != CREATE2 {
				a.Returned, a.RetGasOK = ne.Gas-avail, true
				if evs[nxt].K == EvStep {
					a.Ret, a.RetKnown = ne.RData, true
				}
			} else {
				passed := avail
				if eip150 {
					passed = avail - avail/64
				}
				a.Gas, a.GasKnown = passed, true
				a.Returned, a.RetGasOK = ne.Gas-(avail-passed), true
			}
		}
		if a.Frame != nil {
			a.Gas, a.GasKnown = a.Frame.Gas, true
			a.ErrText, a.ErrKnown = a.Frame.Err, true
			a.Ret, a.RetKnown = a.Frame.Output, true
			if a.Frame.CloseEv < 0 {
				a.RetKnown, a.ErrKnown = false, false
			}
		} else if e.Op != CREATE && e.Op != CREATE2 && a.RetGasOK {
			// refused up front: everything supplied comes back
			a.Gas, a.GasKnown = a.Returned, true
		}
		out = append(out, a)
	}
	_ = byFrame
	return out
}

// RecordedAncestor returns the innermost frame at or above f that the call tree
// records (CALL / CREATE / CREATE2 frames and top-level call/create frames).
func RecordedAncestor(f *Frame) *Frame {
	for x := f; x != nil; x = x.Parent {
		if x.Kind == CALL || x.Kind == CREATE || x.Kind == CREATE2 {
			return x
		}
	}
	return nil
}
