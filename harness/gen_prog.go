package h

import (
	"math/big"
	"sync"

	"github.com/ethereum/go-ethereum/common"
	uvm "github.com/ethereum/go-ethereum/core/vm"
	"github.com/ethereum/go-ethereum/crypto"
	"github.com/holiman/uint256"
	"pgregory.net/rapid"
)

// ---------------------------------------------------------------------------
// Opcode tables derived from UPSTREAM's exported instruction sets, i.e.
// independently of the code under test.

type opInfo struct {
	Defined bool
	Pops    int
	Pushes  int
}

type opTable [256]opInfo

var (
	opTabMu    sync.Mutex
	opTabCache = map[string]*opTable{}
)

// OpTableFor returns (pops, pushes, defined) per opcode for a fork (Cancun maps
// to Shanghai plus the three Cancun opcodes of this code base).
func OpTableFor(fork string, extra []int) *opTable {
	key := fork
	for _, e := range extra {
		key += "," + big.NewInt(int64(e)).String()
	}
	opTabMu.Lock()
	defer opTabMu.Unlock()
	if t, ok := opTabCache[key]; ok {
		return t
	}
	f := fork
	if f == "Cancun" {
		f = "Shanghai"
	}
	cfg := ChainConfigFor(f)
	rules := cfg.Rules(big.NewInt(scenBlockNumber), forkIsMerge(f), scenTime)
	jt, err := uvm.LookupInstructionSet(rules)
	if err != nil {
		panic(err)
	}
	for _, e := range extra {
		if err := uvm.EnableEIP(e, &jt); err != nil {
			panic(err)
		}
	}
	var tab opTable
	for i := 0; i < 256; i++ {
		op := jt[i]
		min, max := op.Stack()
		defined := op.HasCost() || i == STOP
		if !defined {
			continue
		}
		pops := min
		pushes := 1024 + pops - max
		tab[i] = opInfo{Defined: true, Pops: pops, Pushes: pushes}
	}
	if fork == "Cancun" {
		tab[TLOAD] = opInfo{true, 1, 1}
		tab[TSTORE] = opInfo{true, 2, 0}
		tab[MCOPY] = opInfo{true, 3, 0}
	}
	opTabCache[key] = &tab
	return &tab
}

// eipActivation[eip] = index of the fork that has it built in.
var eipActivation = map[int]int{1344: 7, 1884: 7, 2200: 7, 2929: 8, 3198: 9, 3529: 9, 3855: 11, 3860: 11}
var eipList = []int{1344, 1884, 2200, 2929, 3198, 3529, 3855, 3860}

// ---------------------------------------------------------------------------
// Address universe

func addrN(prefix byte, n int) common.Address {
	var a common.Address
	a[0] = prefix
	a[18] = byte(n >> 8)
	a[19] = byte(n)
	return a
}

var (
	ContractAddrs = []common.Address{addrN(0xc0, 1), addrN(0xc0, 2), addrN(0xc0, 3), addrN(0xc0, 4), addrN(0xc0, 5), addrN(0xc0, 6)}
	EOAAddr       = addrN(0xe0, 1)
	EOA2Addr      = addrN(0xe0, 2)
	NoAddr        = addrN(0xde, 0xad)
)

// ---------------------------------------------------------------------------
// helpers over rapid

// rapid's integer generators are deliberately biased towards small values and
// range ends, which is wrong for *choices* (fork, opcode, snippet kind). ubits
// builds an unbiased value from single-bit draws; all-zero bits (what shrinking
// converges to) mean "first / simplest alternative" and "chance -> false".
func ubits(t *rapid.T, n int, label string) uint64 {
	var v uint64
	for i := 0; i < n; i++ {
		if rapid.Bool().Draw(t, label) {
			v |= 1 << uint(i)
		}
	}
	return v
}

// uniform draws an (almost) uniform integer in [lo, hi].
func uniform(t *rapid.T, lo, hi int, label string) int {
	n := hi - lo + 1
	if n <= 1 {
		return lo
	}
	bits := 1
	for (1 << uint(bits)) < n {
		bits++
	}
	return lo + int(ubits(t, bits+4, label)%uint64(n))
}

func chance(t *rapid.T, pct int, label string) bool {
	return int(ubits(t, 7, label)) >= 128-pct*128/100
}

func pickInt(t *rapid.T, label string, vals ...int) int {
	return vals[uniform(t, 0, len(vals)-1, label)]
}

func pickU64(t *rapid.T, label string, vals ...uint64) uint64 {
	return vals[uniform(t, 0, len(vals)-1, label)]
}

var boundaryWords = func() []*uint256.Int {
	var out []*uint256.Int
	add := func(x *uint256.Int) { out = append(out, x) }
	for _, v := range []uint64{0, 1, 2, 3, 7, 8, 31, 32, 33, 63, 64, 255, 256, 257, 0xffff, 0x10000, 0x10001, 0xffffffff, 0x100000000, 0x100000001} {
		add(uint256.NewInt(v))
	}
	one := uint256.NewInt(1)
	for _, sh := range []uint{63, 64, 127, 128, 160, 255} {
		p := new(uint256.Int).Lsh(one, sh)
		add(p)
		add(new(uint256.Int).Sub(p, one))
		add(new(uint256.Int).Add(p, one))
	}
	max := new(uint256.Int).Not(uint256.NewInt(0))
	add(max)
	add(new(uint256.Int).Sub(max, one))
	for _, v := range []uint64{2, 3, 32, 256} { // small negatives
		add(new(uint256.Int).Sub(max, uint256.NewInt(v-1)))
	}
	return out
}()

func genWord(t *rapid.T, label string) *uint256.Int {
	switch uniform(t, 0, 9, label+".k") {
	case 0, 1, 2, 3, 4, 5:
		return new(uint256.Int).Set(boundaryWords[uniform(t, 0, len(boundaryWords)-1, label+".b")])
	case 6, 7:
		return uint256.NewInt(rapid.Uint64().Draw(t, label+".u"))
	default:
		b := rapid.SliceOfN(rapid.Byte(), 32, 32).Draw(t, label+".r")
		return new(uint256.Int).SetBytes(b)
	}
}

// ---------------------------------------------------------------------------
// Program generator

type ProgCfg struct {
	Fork        string
	Extra       []int
	Standard    bool // only standard opcodes and precompiles (C01/C02/C18 domain)
	Journal     bool // allow journal opcodes (C03)
	Cancun      bool // allow TLOAD/TSTORE/MCOPY heavy programs
	Contracts   int
	MaxSnips    int
	NoArtelaPre bool // never address 0x64-0x66
	// C12 (metamorphic pairs): journal sites, and nothing that would let the
	// program observe gas, its own code bytes or jump into padding
	Sites    bool
	Hermetic bool
	Focus    []byte // opcodes to favour in micro snippets
	FocusPct int
}

type progGen struct {
	t    *rapid.T
	cfg  ProgCfg
	tab  *opTable
	ops  []byte // ops usable for micro snippets
	addr []common.Address
	pre  []uint64 // precompile numbers usable
	n    int      // label counter for draws
	cur  int      // index of the top-level contract being generated (-1: unknown)
	// Sites: journal sites per generated contract (cfg.Sites)
	Sites map[common.Address][]JSite
}

func (g *progGen) lbl(s string) string { return s }

var structuralOps = map[byte]bool{JUMP: true, JUMPI: true, CALL: true, CALLCODE: true, DELEGATECALL: true, STATICCALL: true,
	CREATE: true, CREATE2: true, RETURN: true, REVERT: true, STOP: true, SELFDESTRUCT: true, INVALID: true, JUMPDEST: true}

func newProgGen(t *rapid.T, cfg ProgCfg) *progGen {
	g := &progGen{t: t, cfg: cfg, tab: OpTableFor(cfg.Fork, cfg.Extra), cur: -1}
	for i := 0; i < 256; i++ {
		op := byte(i)
		if !g.tab[i].Defined || structuralOps[op] {
			continue
		}
		if op >= RSVJNAL && op <= VRJNAL {
			continue
		}
		if cfg.Hermetic && (op == GAS || op == CODECOPY || op == EXTCODECOPY || op == EXTCODEHASH || op == EXTCODESIZE || op == PC || op == CODESIZE) {
			continue
		}
		g.ops = append(g.ops, op)
	}
	if cfg.Journal {
		// hostile mode: the journal opcodes with arbitrary operands (operand counts
		// written down here; upstream does not know these opcodes)
		for op, pops := range map[byte]int{RSVJNAL: 3, VSVJNAL: 4, IRVVJNAL: 6, IRVRJNAL: 5, IVVVJNAL: 6, IVVRJNAL: 5, VVJNAL: 4, VRJNAL: 2} {
			tab := *g.tab
			tab[op] = opInfo{Defined: true, Pops: pops}
			g.tab = &tab
		}
		for op := byte(RSVJNAL); op <= VRJNAL; op++ {
			g.ops = append(g.ops, op, op, op) // favoured
		}
	}
	n := cfg.Contracts
	if n == 0 {
		n = 3
	}
	g.addr = append(g.addr, ContractAddrs[:n]...)
	g.addr = append(g.addr, EOAAddr, NoAddr)
	idx := forkIndex(cfg.Fork)
	g.pre = []uint64{1, 2, 3, 4}
	if idx >= 4 {
		g.pre = append(g.pre, 5, 6, 7, 8)
	}
	if idx >= 7 {
		g.pre = append(g.pre, 9)
	}
	return g
}

func (g *progGen) genAddr(label string) *uint256.Int {
	t := g.t
	k := uniform(t, 0, 19, label+".ak")
	switch {
	case k < 12:
		a := g.addr[uniform(t, 0, len(g.addr)-1, label+".ai")]
		return new(uint256.Int).SetBytes(a[:])
	case k < 16:
		p := g.pre[uniform(t, 0, len(g.pre)-1, label+".ap")]
		return uint256.NewInt(p)
	case k < 17:
		// neighbours of the precompile range (never 0x64..0x66 in standard mode)
		v := pickU64(t, label+".an", 0, 10, 11, 0x63, 0x67, 0x100)
		return uint256.NewInt(v)
	case k < 18 && !g.cfg.Standard && !g.cfg.NoArtelaPre:
		return uint256.NewInt(pickU64(t, label+".ax", 0x64, 0x65, 0x66))
	case k < 19:
		// dirty upper bytes over a known address
		a := g.addr[uniform(t, 0, len(g.addr)-1, label+".ai2")]
		w := new(uint256.Int).SetBytes(a[:])
		hi := new(uint256.Int).Lsh(uint256.NewInt(rapid.Uint64Range(1, 1<<20).Draw(t, label+".ahi")), 160)
		return w.Or(w, hi)
	default:
		return genWord(t, label+".aw")
	}
}

// hostileWord: operands for journal instructions - pointers around the scratch
// area and the end of memory, slots that hold prepared (hostile) strings,
// offsets / sizes around 31/32/33, huge values.
func (g *progGen) hostileWord(label string) *uint256.Int {
	t := g.t
	switch uniform(t, 0, 9, label+".hk") {
	case 0, 1:
		return uint256.NewInt(pickU64(t, label+".hp", 0, 0x20, jMemName, jMemName+0x20, 0x3e0, 0x400, 0x1000, 0xffff))
	case 2, 3:
		return uint256.NewInt(pickU64(t, label+".hs", 0, 1, 2, 0x1000, 0x1001, 0x1002, 0x7000, 0x7001, 0x7002, 0x7003, 0x7004, 0x7005))
	case 4, 5:
		return uint256.NewInt(pickU64(t, label+".ho", 0, 1, 4, 8, 16, 28, 31, 32, 33, 255, 256))
	case 6:
		return uint256.NewInt(pickU64(t, label+".hh", 1<<20, 1<<31, 1<<32, 1<<62, 1<<63, 1<<63+1, ^uint64(0)-31, ^uint64(0)))
	case 7:
		return new(uint256.Int).Lsh(uint256.NewInt(1), uint(pickInt(t, label+".hsh", 64, 65, 128, 255)))
	default:
		return genWord(t, label+".hw")
	}
}

func (g *progGen) memOff(label string) *uint256.Int {
	t := g.t
	k := uniform(t, 0, 99, label+".mk")
	switch {
	case k < 60:
		return uint256.NewInt(uint64(pickInt(t, label+".mo", 0, 0, 1, 31, 32, 33, 64, 96, 100, 128, 160, 255, 256, 1024)))
	case k < 98:
		return uint256.NewInt(uint64(rapid.IntRange(0, 4096).Draw(t, label+".mr")))
	case k < 99:
		return uint256.NewInt(uint64(rapid.IntRange(4096, 1<<20).Draw(t, label+".mb")))
	default:
		return genWord(t, label+".mw")
	}
}

func (g *progGen) smallLen(label string) *uint256.Int {
	t := g.t
	k := uniform(t, 0, 99, label+".lk")
	switch {
	case k < 60:
		return uint256.NewInt(uint64(pickInt(t, label+".lo", 0, 0, 1, 2, 31, 32, 33, 64, 65, 100, 128)))
	case k < 98:
		return uint256.NewInt(uint64(rapid.IntRange(0, 600).Draw(t, label+".lr")))
	case k < 99:
		return uint256.NewInt(uint64(rapid.IntRange(600, 1<<18).Draw(t, label+".lb")))
	default:
		return genWord(t, label+".lw")
	}
}

func (g *progGen) storageKey(label string) *uint256.Int {
	t := g.t
	if chance(t, 90, label+".sk") {
		return uint256.NewInt(uint64(rapid.IntRange(0, 5).Draw(t, label+".ski")))
	}
	return genWord(t, label+".skw")
}

func (g *progGen) storageVal(label string) *uint256.Int {
	t := g.t
	if chance(t, 70, label+".sv") {
		return uint256.NewInt(uint64(rapid.IntRange(0, 3).Draw(t, label+".svi")))
	}
	return genWord(t, label+".svw")
}

// operandShape[op] = number of operands the shaped cases below index.
var operandShape = map[byte]int{MLOAD: 1, MSTORE: 2, MSTORE8: 2, KECCAK256: 2, CALLDATALOAD: 1, CALLDATACOPY: 3, CODECOPY: 3,
	RETURNDATACOPY: 3, MCOPY: 3, EXTCODECOPY: 4, BALANCE: 1, EXTCODESIZE: 1, EXTCODEHASH: 1, BLOCKHASH: 1, SLOAD: 1, TLOAD: 1,
	UPTLOAD: 1, SSTORE: 2, TSTORE: 2, UPTSTORE: 2, EXP: 2, SHL: 2, SHR: 2, SAR: 2, BYTE: 2, SIGNEXTEND: 2, SDIV: 2, SMOD: 2,
	LOG0: 2, LOG0 + 1: 3, LOG0 + 2: 4, LOG0 + 3: 5, LOG4: 6}

// operands returns the operands for op, index 0 = top of stack.
func (g *progGen) operands(op byte, pops int) []*uint256.Int {
	t := g.t
	out := make([]*uint256.Int, pops)
	w := func(i int) *uint256.Int { return genWord(t, "w") }
	if pops < operandShape[op] {
		// an extra EIP re-priced an opcode that is undefined on this fork: the
		// table entry has a cost but no operands; treat it as an opaque opcode
		for i := range out {
			out[i] = w(i)
		}
		return out
	}
	if op >= RSVJNAL && op <= VRJNAL {
		for i := range out {
			out[i] = g.hostileWord("jw")
		}
		return out
	}
	switch op {
	case MLOAD:
		out[0] = g.memOff("o")
	case MSTORE, MSTORE8:
		out[0] = g.memOff("o")
		out[1] = w(1)
	case KECCAK256:
		out[0], out[1] = g.memOff("o"), g.smallLen("l")
	case CALLDATALOAD:
		out[0] = g.smallLen("l")
	case CALLDATACOPY, CODECOPY, RETURNDATACOPY:
		out[0], out[1], out[2] = g.memOff("o"), g.smallLen("s"), g.smallLen("l")
	case MCOPY:
		out[0], out[1], out[2] = g.memOff("d"), g.memOff("s"), g.smallLen("l")
	case EXTCODECOPY:
		out[0], out[1], out[2], out[3] = g.genAddr("a"), g.memOff("o"), g.smallLen("s"), g.smallLen("l")
	case BALANCE, EXTCODESIZE, EXTCODEHASH:
		out[0] = g.genAddr("a")
	case BLOCKHASH:
		if chance(t, 80, "bh") {
			out[0] = uint256.NewInt(pickU64(t, "bhn", 0, 1, scenBlockNumber-1, scenBlockNumber, scenBlockNumber+1, scenBlockNumber-256, scenBlockNumber-257, 900))
		} else {
			out[0] = w(0)
		}
	case SLOAD, TLOAD, UPTLOAD:
		out[0] = g.storageKey("k")
	case SSTORE, TSTORE, UPTSTORE:
		out[0], out[1] = g.storageKey("k"), g.storageVal("v")
	case EXP:
		out[0] = w(0)
		nb := rapid.IntRange(0, 32).Draw(t, "expb")
		b := rapid.SliceOfN(rapid.Byte(), nb, nb).Draw(t, "expv")
		out[1] = new(uint256.Int).SetBytes(b)
	case SHL, SHR, SAR:
		if chance(t, 80, "sh") {
			out[0] = uint256.NewInt(pickU64(t, "shn", 0, 1, 7, 8, 31, 128, 255, 256, 257, 1<<32))
		} else {
			out[0] = w(0)
		}
		out[1] = w(1)
	case BYTE, SIGNEXTEND:
		if chance(t, 80, "bx") {
			out[0] = uint256.NewInt(pickU64(t, "bxn", 0, 1, 15, 30, 31, 32, 33, 255, 1<<32))
		} else {
			out[0] = w(0)
		}
		out[1] = w(1)
	case SDIV, SMOD:
		out[0], out[1] = w(0), w(1)
		if chance(t, 15, "sdivmin") {
			out[0] = new(uint256.Int).Lsh(uint256.NewInt(1), 255)
			out[1] = new(uint256.Int).Not(uint256.NewInt(0))
		}
	case LOG0, LOG0 + 1, LOG0 + 2, LOG0 + 3, LOG4:
		out[0], out[1] = g.memOff("o"), g.smallLen("l")
		for i := 2; i < pops; i++ {
			out[i] = w(i)
		}
	default:
		for i := range out {
			out[i] = w(i)
		}
	}
	return out
}

// code emission state for one contract
type codeGen struct {
	g     *progGen
	a     *Asm
	h     int // tracked stack height (assuming success)
	datas []dataSeg
	depth int
	sites []JSite
	// creations emitted so far by this code (CREATE address prediction)
	ncreates int
}

// JSite is a journal instruction emitted as [JOP, JUMPDEST x (k-1)]: k bytes that
// the metamorphic variants replace by k POPs (same length, same stack effect).
type JSite struct {
	Pos int  `json:"pos"`
	K   int  `json:"k"`
	Op  byte `json:"op"`
}

type dataSeg struct {
	label string
	data  []byte
}

func (c *codeGen) t() *rapid.T { return c.g.t }

// disposeResults handles k freshly pushed results.
func (c *codeGen) disposeResults(k int) {
	t := c.t()
	for i := 0; i < k; i++ {
		r := uniform(t, 0, 9, "disp")
		switch {
		case r < 3 && c.h < 10:
			// keep on the stack
		case r < 5:
			c.a.Push(c.g.storageKey("dk")).Op(SSTORE)
			c.h--
		case r < 8:
			c.a.Push(c.g.memOff("dm")).Op(MSTORE)
			c.h--
		default:
			c.a.Op(POP)
			c.h--
		}
	}
}

func (c *codeGen) micro() {
	t := c.t()
	g := c.g
	if len(g.cfg.Focus) > 0 && chance(t, g.cfg.FocusPct, "focus") {
		c.microOp(g.cfg.Focus[uniform(t, 0, len(g.cfg.Focus)-1, "focusop")])
		return
	}
	op := g.ops[uniform(t, 0, len(g.ops)-1, "op")]
	c.microOp(op)
}

func (c *codeGen) microOp(op byte) {
	t := c.t()
	g := c.g
	info := g.tab[op]
	switch {
	case op >= PUSH1 && op <= PUSH32:
		n := int(op-PUSH1) + 1
		b := rapid.SliceOfN(rapid.Byte(), n, n).Draw(t, "pushdata")
		c.a.Op(op).Raw(b)
		c.h++
		c.disposeResults(1)
		return
	case op >= DUP1 && op <= DUP16:
		n := int(op-DUP1) + 1
		for c.h < n {
			c.a.Push(genWord(t, "fill"))
			c.h++
		}
		c.a.Op(op)
		c.h++
		c.disposeResults(1)
		return
	case op >= SWAP1 && op <= SWAP16:
		n := int(op-SWAP1) + 2
		for c.h < n {
			c.a.Push(genWord(t, "fill"))
			c.h++
		}
		c.a.Op(op)
		return
	}
	ops := g.operands(op, info.Pops)
	for i := len(ops) - 1; i >= 0; i-- {
		c.a.Push(ops[i])
	}
	c.a.Op(op)
	c.h += info.Pushes
	c.disposeResults(info.Pushes)
}

func (c *codeGen) window() (off, ln *uint256.Int) {
	return c.g.memOff("wo"), c.g.smallLen("wl")
}

func (c *codeGen) callSnippet() {
	t := c.t()
	g := c.g
	idx := forkIndex(g.cfg.Fork)
	kinds := []byte{CALL, CALL, CALL, CALLCODE}
	if idx >= 1 {
		kinds = append(kinds, DELEGATECALL)
	}
	if idx >= 4 {
		kinds = append(kinds, STATICCALL)
	}
	kind := kinds[uniform(t, 0, len(kinds)-1, "callkind")]
	// optionally prepare argument memory
	if chance(t, 50, "callprep") {
		c.a.Push(genWord(t, "argw")).Push(g.memOff("argo")).Op(MSTORE)
	}
	inOff, inLen := c.window()
	outOff, outLen := c.window()
	if chance(t, 30, "overlap") {
		outOff = new(uint256.Int).Set(inOff)
	}
	c.a.Push(outLen).Push(outOff).Push(inLen).Push(inOff)
	if kind == CALL || kind == CALLCODE {
		var v *uint256.Int
		switch r := uniform(t, 0, 9, "callval"); {
		case r < 6:
			v = uint256.NewInt(0)
		case r < 8:
			v = uint256.NewInt(uint64(rapid.IntRange(1, 3).Draw(t, "callv1")))
		case r < 9:
			v = uint256.NewInt(rapid.Uint64Range(1, 2000).Draw(t, "callv2"))
		default:
			v = genWord(t, "callvw")
		}
		c.a.Push(v)
	}
	c.a.Push(g.genAddr("callto"))
	switch r := uniform(t, 0, 11, "callgas"); {
	case g.cfg.Hermetic:
		c.a.Push(uint64(pickInt(t, "callgash", 30000, 50000, 15000)))
	case r < 3:
		c.a.Op(GAS)
	case r < 4:
		c.a.Push(0)
	case r < 5:
		c.a.Push(uint64(pickInt(t, "callgasb", 1, 699, 700, 701, 2299, 2300, 2301, 9000)))
	case r < 9:
		c.a.Push(rapid.Uint64Range(0, 200000).Draw(t, "callgasr"))
	case r < 10:
		c.a.Push(genWord(t, "callgasw"))
	default:
		// all but a bit
		c.a.Push(uint64(rapid.IntRange(0, 3000).Draw(t, "callgasm"))).Op(GAS, SUB)
	}
	c.a.Op(kind)
	c.h++
	if chance(t, 40, "callrd") && g.tab[RETURNDATASIZE].Defined {
		// look at return data
		c.a.Op(RETURNDATASIZE).Push(g.memOff("rdo")).Op(MSTORE)
		if chance(t, 50, "callrdc") {
			c.a.Push(g.smallLen("rdl")).Push(g.smallLen("rds")).Push(g.memOff("rdd")).Op(RETURNDATACOPY)
		}
	}
	c.disposeResults(1)
}

func (c *codeGen) initCode() []byte {
	t := c.t()
	g := c.g
	switch r := uniform(t, 0, 11, "initkind"); {
	case r < 5 && c.depth < 2:
		// deploy generated runtime code
		rt := g.genCode(c.depth+1, rapid.IntRange(1, 6).Draw(t, "rtsn"))
		return InitCodeReturning(rt)
	case r < 6:
		return InitCodeReturning(append([]byte{0xEF}, rapid.SliceOfN(rapid.Byte(), 0, 8).Draw(t, "efcode")...))
	case r < 7:
		// oversize code: RETURN(0, 24577) or exactly the limit
		n := pickInt(t, "bigcode", 24576, 24577, 49152)
		return NewAsm().Push(n).Push(0).Op(RETURN).Bytes()
	case r < 8:
		return NewAsm().RevertBytes(rapid.SliceOfN(rapid.Byte(), 0, 40).Draw(t, "initrev")).Bytes()
	case r < 9:
		return []byte{INVALID}
	case r < 10:
		return nil
	case r < 11 && c.depth < 2:
		// generated init code with side effects, may or may not return code
		return g.genCode(c.depth+1, rapid.IntRange(1, 6).Draw(t, "initsn"))
	default:
		return InitCodeReturning(rapid.SliceOfN(rapid.Byte(), 0, 40).Draw(t, "rawrt"))
	}
}

func (c *codeGen) createSnippet() {
	t := c.t()
	g := c.g
	idx := forkIndex(g.cfg.Fork)
	init := c.initCode()
	label := c.a.NewLabel()
	c.datas = append(c.datas, dataSeg{label, init})
	dst := uint64(pickInt(t, "createdst", 0, 0, 32, 100, 1000))
	ln := len(init)
	if chance(t, 10, "createlen") {
		ln = rapid.IntRange(0, len(init)+40).Draw(t, "createlenv")
	} else if chance(t, 7, "createbig") {
		// init-code sizes around the EIP-170 / EIP-3860 limits (the window beyond the
		// copied code reads as zeros, i.e. STOP)
		ln = pickInt(t, "createbigv", 24576, 24577, 32768, 49151, 49152, 49153)
	}
	c.a.Push(len(init)).PushLabel(label).Push(dst).Op(CODECOPY)
	var v *uint256.Int
	switch r := uniform(t, 0, 9, "createval"); {
	case r < 6:
		v = uint256.NewInt(0)
	case r < 9:
		v = uint256.NewInt(uint64(rapid.IntRange(1, 1000).Draw(t, "createv")))
	default:
		v = genWord(t, "createvw")
	}
	use2 := idx >= 5 && chance(t, 50, "create2")
	salt := uint64(0)
	if use2 {
		salt = uint64(rapid.IntRange(0, 2).Draw(t, "salt"))
		c.a.Push(salt)
	}
	c.a.Push(ln).Push(dst).Push(v)
	if use2 {
		c.a.Op(CREATE2)
	} else {
		c.a.Op(CREATE)
	}
	c.h++
	if chance(t, 40, "createcall") {
		// call the created contract
		c.a.Op(DUP1)
		c.a.Push(0).Push(0).Push(0).Push(0).Push(0).Op(DUP1+5).Push(uint64(rapid.IntRange(0, 100000).Draw(t, "ccgas"))).Op(CALL, POP, POP)
	}
	c.disposeResults(1)
	c.ncreates++
	if !g.cfg.Hermetic && chance(t, 35, "touchcreated") {
		// Touch the address the creation was for, whether it succeeded or not (warm /
		// cold accounting, existence, code hash of a failed or collided creation).
		touched := false
		if use2 && ln == len(init) {
			// keccak256(0xff ++ ADDRESS ++ salt ++ keccak256(init code)) computed in place
			const s = 0x600
			c.a.Push(ln).Push(dst).Op(KECCAK256)
			c.a.Op(ADDRESS).Push(96).Op(SHL).Push(s + 1).Op(MSTORE)
			c.a.Push(salt).Push(s + 21).Op(MSTORE)
			c.a.Push(s + 53).Op(MSTORE)
			c.a.Push(0xff).Push(s).Op(MSTORE8)
			c.a.Push(85).Push(s).Op(KECCAK256)
			touched = true
		} else if !use2 && c.depth == 0 && g.cur >= 0 {
			// nonce of the generated contract = 1 + creations it made before (exact when
			// the code before ran once, in its own context)
			a := crypto.CreateAddress(ContractAddrs[g.cur], uint64(c.ncreates))
			c.a.Push(a[:])
			touched = true
		}
		if touched {
			c.h++
			ops := []byte{BALANCE, EXTCODESIZE, CALL}
			if g.tab[EXTCODEHASH].Defined {
				ops = append(ops, EXTCODEHASH)
			}
			switch op := ops[uniform(t, 0, len(ops)-1, "touchop")]; op {
			case CALL:
				c.a.Push(0).Push(0).Push(0).Push(0).Push(0).Op(DUP1+5).Push(uint64(pickInt(t, "touchgas", 0, 2600, 30000))).Op(CALL, SWAP1, POP)
			default:
				c.a.Op(op)
			}
			c.disposeResults(1)
		}
	}
}

func (c *codeGen) terminator() {
	t := c.t()
	g := c.g
	idx := forkIndex(g.cfg.Fork)
	r := uniform(t, 0, 19, "term")
	switch {
	case r < 8:
		off, ln := c.window()
		c.a.Push(ln).Push(off).Op(RETURN)
	case r < 11:
		c.a.Op(STOP)
	case r < 14 && idx >= 4:
		off, ln := c.window()
		c.a.Push(ln).Push(off).Op(REVERT)
	case r < 16:
		c.a.Op(INVALID)
	case r < 18:
		c.a.Push(g.genAddr("sd")).Op(SELFDESTRUCT)
	default:
		// fall off / STOP
		c.a.Op(STOP)
	}
}

func (c *codeGen) condTerminator() {
	t := c.t()
	skip := c.a.NewLabel()
	// condition from a storage / calldata / constant
	switch uniform(t, 0, 3, "condk") {
	case 0:
		c.a.Push(uint64(rapid.IntRange(0, 1).Draw(t, "condc")))
	case 1:
		c.a.Push(c.g.storageKey("condsk")).Op(SLOAD)
	case 2:
		c.a.Push(uint64(rapid.IntRange(0, 64).Draw(t, "condcd"))).Op(CALLDATALOAD)
	default:
		c.a.Op(CALLVALUE)
	}
	c.a.Jumpi(skip)
	c.terminator()
	c.a.Label(skip)
}

func (c *codeGen) loopSnippet() {
	t := c.t()
	n := rapid.IntRange(0, 5).Draw(t, "loopn")
	top := c.a.NewLabel()
	end := c.a.NewLabel()
	c.a.Push(n)
	c.h++
	c.a.Label(top)
	// exit when counter == 0
	c.a.Op(DUP1, ISZERO).Jumpi(end)
	h0 := c.h
	body := rapid.IntRange(1, 3).Draw(t, "loopbody")
	for i := 0; i < body; i++ {
		c.snippet(false)
	}
	// restore height
	for c.h > h0 {
		c.a.Op(POP)
		c.h--
	}
	c.a.Push(1).Op(SWAP1, SUB).Jump(top)
	c.a.Label(end)
	c.a.Op(POP)
	c.h--
}

func (c *codeGen) badJump() {
	t := c.t()
	switch uniform(t, 0, 2, "badjump") {
	case 0:
		c.a.Push(genWord(t, "bjw")).Op(JUMP)
	case 1:
		c.a.Push(0).Push(genWord(t, "bjw")).Op(JUMPI) // not taken
	default:
		c.a.Push(1).Push(uint64(rapid.IntRange(0, 40).Draw(t, "bjd"))).Op(JUMPI)
	}
}

// precompileSnippet: a call of any kind to a standard precompile with a
// meaningful or hostile input, output window possibly overlapping the input at
// another offset, then the argument area is overwritten and the return data is
// copied out and made observable (aliasing between input, output, return-data
// buffer and memory shows up as a wrong stored word).
func (c *codeGen) precompileSnippet() {
	t := c.t()
	g := c.g
	idx := forkIndex(g.cfg.Fork)
	p := g.pre[uniform(t, 0, len(g.pre)-1, "pcp")]
	if chance(t, 40, "pcid") {
		p = 4
	}
	inOff := uint64(pickInt(t, "pcin", 0, 0x20, 0x40, 0x100))
	inLen := uint64(pickInt(t, "pcinlen", 0x20, 0x40, 0x60, 0x80, 0xc0, 1, 33))
	// fill the input area with generated words (for 0x05 these are the length header)
	for o := uint64(0); o < inLen && o < 0xc0; o += 0x20 {
		w := genWord(t, "pcw")
		if p == 5 && chance(t, 70, "pcsmall") {
			w = uint256.NewInt(uint64(pickInt(t, "pclen", 0, 1, 2, 32, 33)))
		}
		c.a.Push(w).Push(inOff + o).Op(MSTORE)
	}
	outOff := inOff + uint64(pickInt(t, "pcout", 0x200, 1, 0x20, 0, 0x1f))
	outLen := uint64(pickInt(t, "pcoutlen", 0x20, 0x40, 0, 0x21))
	kinds := []byte{CALL, CALLCODE}
	if idx >= 1 {
		kinds = append(kinds, DELEGATECALL)
	}
	if idx >= 4 {
		kinds = append(kinds, STATICCALL)
	}
	kind := kinds[uniform(t, 0, len(kinds)-1, "pckind")]
	c.a.Push(outLen).Push(outOff).Push(inLen).Push(inOff)
	if kind == CALL || kind == CALLCODE {
		c.a.Push(0)
	}
	c.a.Push(p).Push(uint64(pickInt(t, "pcgas", 100000, 100000, 3000, 700, 100)))
	c.a.Op(kind)
	c.h++
	// overwrite the argument area afterwards
	if chance(t, 70, "pcscribble") {
		c.a.Push(genWord(t, "pcsw")).Push(inOff + uint64(pickInt(t, "pcso", 0, 0x20, 1))).Op(MSTORE)
	}
	if g.tab[RETURNDATASIZE].Defined && chance(t, 80, "pcrd") {
		dst := uint64(pickInt(t, "pcdst", 0x300, 0x320, 0x40))
		c.a.Op(RETURNDATASIZE).Push(0).Push(dst).Op(RETURNDATACOPY)
		c.a.Push(dst).Op(MLOAD).Push(g.storageKey("pcsk")).Op(SSTORE)
	}
	// what the out window received
	c.a.Push(outOff).Op(MLOAD).Push(g.storageKey("pcsk2")).Op(SSTORE)
	c.disposeResults(1)
}

// sstoreSeqSnippet: several stores to ONE key with values around its original
// value (refund and net-metering branches: dirty update, clear, reset).
func (c *codeGen) sstoreSeqSnippet() {
	t := c.t()
	key := uint64(uniform(t, 0, 5, "ssk"))
	n := rapid.IntRange(2, 4).Draw(t, "ssn")
	for i := 0; i < n; i++ {
		c.a.Push(uint64(uniform(t, 0, 3, "ssv"))).Push(key).Op(SSTORE)
	}
}

func (c *codeGen) snippet(allowLoop bool) {
	t := c.t()
	r := uniform(t, 0, 99, "snip")
	switch {
	case r < 45:
		c.micro()
	case r < 50 && !c.g.cfg.Hermetic:
		c.precompileSnippet()
	case r < 55:
		c.sstoreSeqSnippet()
	case r < 72:
		c.callSnippet()
	case r < 80:
		c.createSnippet()
	case r < 86:
		c.condTerminator()
	case r < 92 && allowLoop:
		c.loopSnippet()
	case r < 94 && !c.g.cfg.Hermetic:
		c.badJump()
	case r < 96 && !c.g.cfg.Hermetic:
		// raw random bytes inline
		c.a.Raw(rapid.SliceOfN(rapid.Byte(), 1, 6).Draw(t, "rawbytes"))
	case c.g.cfg.Sites && c.depth == 0:
		c.journalBlock()
	default:
		c.micro()
	}
	// keep the stack bounded
	for c.h > 14 {
		c.a.Op(POP)
		c.h--
	}
}

// stackLimit fills the operand stack to the limit of 1024 (or one / two below) and
// executes an instruction there: one that grows the stack must fail exactly when no
// room is left, one that does not must run; a store makes the outcome observable.
func (c *codeGen) stackLimit() {
	t := c.t()
	g := c.g
	var grow, keep []byte
	for i := 0; i < 256; i++ {
		op := byte(i)
		inf := g.tab[op]
		if !inf.Defined || structuralOps[op] || (op >= RSVJNAL && op <= VRJNAL) || op == CREATE || op == CREATE2 || (op >= CALL && op <= CALLCODE) || op == DELEGATECALL || op == STATICCALL || op == SELFDESTRUCT {
			continue
		}
		if op >= PUSH1 && op <= PUSH32 {
			continue // immediates are handled below
		}
		if inf.Pushes > inf.Pops && inf.Pops == 0 {
			grow = append(grow, op)
		} else if inf.Pushes == inf.Pops && inf.Pops == 1 {
			keep = append(keep, op)
		}
	}
	room := uniform(t, 0, 2, "slroom") // free slots left when the instruction executes
	for c.h < 1024-room {
		c.a.Push(uint64(7))
		c.h++
	}
	ops := grow
	if len(keep) > 0 && chance(t, 30, "slkeep") {
		ops = keep
	}
	if g.tab[PUSH0].Defined && chance(t, 25, "slpush0") {
		ops = []byte{PUSH0}
	}
	if len(ops) > 0 {
		op := ops[uniform(t, 0, len(ops)-1, "slop")]
		c.a.Op(op)
		c.h += g.tab[op].Pushes - g.tab[op].Pops
	}
	// consume two and record that this point was reached
	c.a.Op(SSTORE)
	c.h -= 2
	for c.h > 14 {
		c.a.Op(POP)
		c.h--
	}
}

// genCode generates one program.
func (g *progGen) genCode(depth, snippets int) []byte {
	code, _ := g.genCodeSites(depth, snippets)
	return code
}

func (g *progGen) genCodeSites(depth, snippets int) ([]byte, []JSite) {
	c := &codeGen{g: g, a: NewAsm(), depth: depth}
	for i := 0; i < snippets; i++ {
		c.snippet(depth < 2)
	}
	if depth == 0 && !g.cfg.Hermetic && chance(g.t, 4, "stacklimit") {
		c.stackLimit()
	}
	c.terminator()
	for _, d := range c.datas {
		c.a.Mark(d.label).Raw(d.data)
	}
	if !g.cfg.Hermetic && chance(g.t, 10, "tail") {
		c.a.Raw(rapid.SliceOfN(rapid.Byte(), 1, 20).Draw(g.t, "tailbytes"))
	}
	code := c.a.Bytes()
	if g.cfg.Standard {
		code = sanitizeStandard(code)
	}
	return code, c.sites
}

// sanitizeStandard rewrites opcode positions holding Artela-only opcodes
// (journal instructions) to INVALID: the differential properties quantify over
// programs that use standard opcodes only. PUSH data is left untouched.
func sanitizeStandard(code []byte) []byte {
	pos := opPositions(code)
	out := append([]byte(nil), code...)
	for i, isOp := range pos {
		if isOp && isNonStandardOpByte(out[i]) {
			out[i] = INVALID
		}
	}
	return out
}

// isNonStandardOpByte: bytes that are not opcodes of any fork Frontier..Shanghai
// in go-ethereum v1.12.0 but carry a meaning (or just another *name* in error
// texts) in one of the two code bases: journal opcodes 0xe0-0xe7, Artela's
// Cancun positions 0x5c-0x5e and upstream's EIP-1153 positions 0xb3/0xb4.
func isNonStandardOpByte(b byte) bool {
	return (b >= RSVJNAL && b <= VRJNAL) || b == TLOAD || b == TSTORE || b == MCOPY || b == UPTLOAD || b == UPTSTORE
}

// GenProgScenario generates a complete scenario around generated programs.
func GenProgScenario(t *rapid.T, cfg ProgCfg) *Scenario {
	sc, _ := GenProgScenarioSites(t, cfg)
	return sc
}

// GenProgScenarioSites also returns the journal sites per contract (cfg.Sites).
func GenProgScenarioSites(t *rapid.T, cfg ProgCfg) (*Scenario, map[common.Address][]JSite) {
	if cfg.Fork == "" {
		maxFork := 11
		cfg.Fork = ForkNames[uniform(t, 0, maxFork, "fork")]
	}
	idx := forkIndex(cfg.Fork)
	if cfg.Extra == nil && chance(t, 25, "extra") {
		var cand []int
		for _, e := range eipList {
			// 2929/3529 rely on the access list that hosts only prepare from
			// Berlin on (upstream itself panics otherwise): 2929 is never an
			// "extra", 3529 only on Berlin.
			if e == 2929 || (e == 3529 && idx < 8) {
				continue
			}
			// 3860 installs a gas function on the CREATE2 slot; before Constantinople
			// that slot is the undefined opcode (no operands) and the gas function
			// indexes an empty stack - upstream panics in the same way, so this is not
			// a configuration a host can run
			if e == 3860 && idx < 5 {
				continue
			}
			if eipActivation[e] > idx {
				cand = append(cand, e)
			}
		}
		if len(cand) > 0 {
			n := uniform(t, 1, 2, "nextra")
			for i := 0; i < n; i++ {
				e := cand[uniform(t, 0, len(cand)-1, "eip")]
				dup := false
				for _, x := range cfg.Extra {
					dup = dup || x == e
				}
				if !dup {
					cfg.Extra = append(cfg.Extra, e)
				}
			}
		}
	}
	if cfg.Contracts == 0 {
		cfg.Contracts = uniform(t, 1, 4, "ncontracts")
	}
	if cfg.MaxSnips == 0 {
		cfg.MaxSnips = 12
	}
	g := newProgGen(t, cfg)
	sc := &Scenario{Fork: cfg.Fork, ExtraEips: cfg.Extra}
	for i := 0; i < cfg.Contracts; i++ {
		g.cur = i
		code, sites := g.genCodeSites(0, rapid.IntRange(1, cfg.MaxSnips).Draw(t, "nsnips"))
		if g.Sites == nil {
			g.Sites = map[common.Address][]JSite{}
		}
		if len(sites) > 0 {
			g.Sites[ContractAddrs[i]] = sites
		}
		acc := Account{Addr: ContractAddrs[i], Nonce: 1, Code: code}
		acc.Balance = hexU64(pickU64(t, "cbal", 0, 1, 1000, 1_000_000))
		if chance(t, 50, "cstore") {
			acc.Storage = map[common.Hash]common.Hash{}
			n := rapid.IntRange(1, 3).Draw(t, "cstoren")
			for j := 0; j < n; j++ {
				k := common.BigToHash(big.NewInt(int64(rapid.IntRange(0, 5).Draw(t, "cstorek"))))
				v := common.BigToHash(big.NewInt(int64(rapid.IntRange(1, 3).Draw(t, "cstorev"))))
				acc.Storage[k] = v
			}
		}
		sc.Accounts = append(sc.Accounts, acc)
	}
	sc.Accounts = append(sc.Accounts, Account{Addr: EOAAddr, Balance: hexBig(new(big.Int).Lsh(big.NewInt(1), 100)), Nonce: 5})
	if chance(t, 5, "collide") {
		// pre-existing account at the address the first contract would create next
		a := crypto.CreateAddress(ContractAddrs[0], 1)
		sc.Accounts = append(sc.Accounts, Account{Addr: a, Nonce: uint64(rapid.IntRange(0, 1).Draw(t, "collnonce")), Balance: hexU64(5), Code: []byte{STOP}})
	}
	ninv := uniform(t, 1, 3, "ninv")
	for i := 0; i < ninv; i++ {
		sc.Invs = append(sc.Invs, g.genInvocation())
	}
	// a host may re-target one EVM with Reset between messages
	for i := 1; i < len(sc.Invs); i++ {
		sc.Invs[i].Reset = chance(t, 30, "reset")
	}
	return sc, g.Sites
}

func (g *progGen) genInvocation() Invocation {
	t := g.t
	idx := forkIndex(g.cfg.Fork)
	inv := Invocation{Origin: EOAAddr, Caller: EOAAddr}
	kinds := []string{"call", "call", "call", "call", "call", "callcode", "delegatecall", "staticcall", "create", "create2"}
	inv.Kind = kinds[uniform(t, 0, len(kinds)-1, "invkind")]
	if chance(t, 15, "invcaller") {
		inv.Caller = g.addr[uniform(t, 0, g.cfg.Contracts-1, "invcalleri")]
	}
	switch r := uniform(t, 0, 9, "invto"); {
	case r < 8:
		inv.To = g.addr[uniform(t, 0, g.cfg.Contracts-1, "invtoi")]
	case r < 9:
		inv.To = common.BigToAddress(new(big.Int).SetUint64(g.pre[uniform(t, 0, len(g.pre)-1, "invtop")]))
	default:
		inv.To = pickAddr(t, "invtox", EOAAddr, NoAddr)
	}
	switch inv.Kind {
	case "create", "create2":
		c := &codeGen{g: g, a: NewAsm(), depth: 0}
		inv.Input = c.initCode()
		if g.cfg.Standard {
			inv.Input = sanitizeStandard(inv.Input)
		}
		inv.Salt = hexU64(uint64(rapid.IntRange(0, 2).Draw(t, "invsalt")))
		inv.To = common.Address{}
	default:
		inv.Input = rapid.SliceOfN(rapid.Byte(), 0, 100).Draw(t, "calldata")
	}
	if inv.Kind == "call" || inv.Kind == "callcode" || inv.Kind == "create" || inv.Kind == "create2" {
		switch r := uniform(t, 0, 9, "invval"); {
		case r < 6:
		case r < 9:
			inv.Value = hexU64(uint64(rapid.IntRange(1, 100000).Draw(t, "invv")))
		default:
			// more than the balance
			inv.Value = hexBig(new(big.Int).Lsh(big.NewInt(1), 200))
		}
	}
	inv.Gas = pickU64(t, "invgas", 200000, 100000, 1000000, 50000)
	if chance(t, 10, "invgasb") {
		inv.Gas = pickU64(t, "invgasbv", 0, 100, 2300, 21000, 50000)
	} else if chance(t, 15, "invgasr") {
		inv.Gas = rapid.Uint64Range(0, 400000).Draw(t, "invgasv")
	}
	if idx >= 8 && chance(t, 40, "access") {
		n := rapid.IntRange(1, 3).Draw(t, "accessn")
		for i := 0; i < n; i++ {
			tu := AccessTuple{Address: g.addr[uniform(t, 0, len(g.addr)-1, "accessa")]}
			nk := rapid.IntRange(0, 3).Draw(t, "accessnk")
			for j := 0; j < nk; j++ {
				tu.Keys = append(tu.Keys, common.BigToHash(big.NewInt(int64(rapid.IntRange(0, 5).Draw(t, "accessk")))))
			}
			inv.Access = append(inv.Access, tu)
		}
	}
	inv.JP = chance(t, 50, "invjp")
	return inv
}

func pickAddr(t *rapid.T, label string, vals ...common.Address) common.Address {
	return vals[uniform(t, 0, len(vals)-1, label)]
}
