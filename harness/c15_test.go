package h

import (
	"bytes"
	"encoding/json"
	"fmt"
	"strings"
	"testing"

	"github.com/ethereum/go-ethereum/common"
	"github.com/holiman/uint256"
	"pgregory.net/rapid"
)

// ---- C15: EIP-1153 (transient storage) and EIP-5656 (MCOPY) under Cancun ----

// nextInFrame returns the index of the next step/fault event of the frame that
// executed event i, or -1 if that frame ended first.
func nextInFrame(evs []Ev, i int) int {
	d := evs[i].Depth
	open := 0
	for j := i + 1; j < len(evs); j++ {
		e := &evs[j]
		switch e.K {
		case EvEnter:
			open++
		case EvExit:
			if open == 0 {
				return -1
			}
			open--
		case EvEnd, EvInvEnd:
			return -1
		case EvStep, EvFault:
			if open == 0 && e.Depth == d {
				return j
			}
		}
	}
	return -1
}

func memCostWords(w uint64) uint64 { return 3*w + w*w/512 }

type c15Extra struct {
	PreFork string `json:"preFork"` // fork used for clause (d)
}

type tsFrame struct {
	addr    common.Address
	static  bool
	journal int // length of the write journal at frame entry
}

type tsWrite struct {
	addr common.Address
	key  uint256.Int
	prev uint256.Int
	had  bool
}

func checkC15(sc *Scenario, st *Stats) *Violation {
	var ex c15Extra
	if len(sc.Extra) > 0 {
		_ = json.Unmarshal(sc.Extra, &ex)
	}
	rec := NewRecorder()
	rec.KeepMem = true
	art := RunArtela(sc, ArtelaOpts{Debug: true, Rec: rec})
	for i := range art.Obs {
		if art.Obs[i].Panic != "" {
			return violf("panic", "panic in invocation %d: %s", i, art.Obs[i].Panic)
		}
	}
	evs := rec.Evs
	var labels []string
	lab := map[string]bool{}
	addLab := func(l string) {
		if !lab[l] {
			lab[l] = true
			labels = append(labels, l)
		}
	}

	// ---------------- EIP-1153 model ----------------
	type tkey struct {
		a common.Address
		k uint256.Int
	}
	model := map[tkey]uint256.Int{}
	restored := map[tkey]bool{} // keys whose value was restored by a frame failure
	var journal []tsWrite
	var frames []tsFrame
	inv := -1
	for i := range evs {
		e := &evs[i]
		switch e.K {
		case EvInvBegin:
			inv = int(e.PC)
			model = map[tkey]uint256.Int{} // empty at the start of every transaction
			restored = map[tkey]bool{}
			journal = journal[:0]
			frames = frames[:0]
		case EvStart:
			frames = append(frames, tsFrame{addr: e.To, journal: len(journal)})
		case EvEnter:
			f := tsFrame{addr: e.To, journal: len(journal)}
			if len(frames) > 0 {
				f.static = frames[len(frames)-1].static
			}
			switch e.Typ {
			case STATICCALL:
				f.static = true
			case DELEGATECALL, CALLCODE:
				// storage context stays the caller's: CaptureEnter reports from = caller.Address()
				f.addr = e.From
			}
			frames = append(frames, f)
		case EvExit, EvEnd:
			if len(frames) == 0 {
				return violf("harness/frames", "unbalanced frames at event %d", i)
			}
			f := frames[len(frames)-1]
			frames = frames[:len(frames)-1]
			if e.Err != "" {
				for j := len(journal) - 1; j >= f.journal; j-- {
					w := journal[j]
					k := tkey{w.addr, w.key}
					if w.had {
						model[k] = w.prev
					} else {
						delete(model, k)
					}
					restored[k] = true
				}
				journal = journal[:f.journal]
			}
		case EvStep:
			if e.Op != TLOAD && e.Op != TSTORE {
				continue
			}
			if len(frames) == 0 {
				return violf("harness/frames", "step outside frame at event %d", i)
			}
			f := frames[len(frames)-1]
			if e.Err != "" {
				// the instruction did not execute (not enough gas / stack): nothing to model,
				// but running out of gas is only legitimate below the fixed fee
				if e.Err == "out of gas" && e.Gas >= 100 {
					return violf("1153/fee", "inv %d pc %d: %s ran out of gas with %d gas left (fee is 100)", inv, e.PC, opName(e.Op), e.Gas)
				}
				// a stack error is legitimate only for too few operands: TLOAD replaces its
				// operand and TSTORE consumes two, so neither can exceed the stack limit
				pops := map[byte]int{TLOAD: 1, TSTORE: 2}[e.Op]
				if e.Err != "out of gas" && len(e.Stack) >= pops {
					return violf("1153/stack", "inv %d pc %d: %s refused with %q although %d operands were on the stack (%d items)", inv, e.PC, opName(e.Op), e.Err, pops, len(e.Stack))
				}
				continue
			}
			if e.Cost != 100 {
				return violf("1153/fee", "inv %d pc %d: %s charged %d, expected the warm-access fee 100", inv, e.PC, opName(e.Op), e.Cost)
			}
			if e.Addr != f.addr {
				return violf("1153/context", "inv %d pc %d: executing storage context %x but frame events say %x", inv, e.PC, e.Addr, f.addr)
			}
			n := len(e.Stack)
			nxt := nextInFrame(evs, i)
			if e.Op == TLOAD {
				addLab("tload")
				k := tkey{f.addr, e.Stack[n-1]}
				want := model[k]
				if nxt < 0 {
					return violf("1153/tload", "inv %d pc %d: frame ended after a successful TLOAD step", inv, e.PC)
				}
				ne := &evs[nxt]
				if ne.K == EvFault {
					return violf("1153/tload", "inv %d pc %d: TLOAD faulted: %s", inv, e.PC, ne.Err)
				}
				got := ne.Stack[len(ne.Stack)-1]
				if !got.Eq(&want) {
					return violf("1153/tload", "inv %d pc %d addr %x key %s: TLOAD returned %s, model says %s", inv, e.PC, f.addr, k.k.Hex(), got.Hex(), want.Hex())
				}
				if restored[k] {
					addLab("tload-after-reverted-tstore")
				}
				if !want.IsZero() {
					addLab("tload-nonzero")
				}
			} else {
				k := tkey{f.addr, e.Stack[n-1]}
				val := e.Stack[n-2]
				faulted := nxt >= 0 && evs[nxt].K == EvFault
				if f.static {
					addLab("tstore-in-static")
					if !faulted || !strings.Contains(evs[nxt].Err, "write protection") {
						return violf("1153/static", "inv %d pc %d: TSTORE in static context did not fail with write protection", inv, e.PC)
					}
					continue
				}
				if faulted {
					return violf("1153/tstore", "inv %d pc %d: TSTORE faulted in a non-static frame: %s", inv, e.PC, evs[nxt].Err)
				}
				addLab("tstore")
				prev, had := model[k]
				journal = append(journal, tsWrite{addr: f.addr, key: k.k, prev: prev, had: had})
				model[k] = val
				delete(restored, k)
			}
		}
	}

	// ---------------- EIP-5656 model ----------------
	for i := range evs {
		e := &evs[i]
		if e.K != EvStep || e.Op != MCOPY {
			continue
		}
		n := len(e.Stack)
		if n < 3 {
			continue
		}
		dst, src, ln := e.Stack[n-1], e.Stack[n-2], e.Stack[n-3]
		oldSize := uint64(e.MemLen)
		// model cost
		var cost uint64
		fits := true
		newSize := oldSize
		if ln.IsZero() {
			cost = 3
		} else {
			hi := dst
			if src.Gt(&dst) {
				hi = src
			}
			end, of := new(uint256.Int).AddOverflow(&hi, &ln)
			if of || !end.IsUint64() || end.Uint64() > 0x1FFFFFFFE0 {
				fits = false // beyond any payable memory size
			} else {
				need := (end.Uint64() + 31) / 32 * 32
				if need > newSize {
					newSize = need
				}
				words := (ln.Uint64() + 31) / 32
				cost = 3 + 3*words + memCostWords(newSize/32) - memCostWords(oldSize/32)
			}
		}
		if !fits || cost > e.Gas {
			addLab("mcopy-unpayable")
			if e.Err == "" {
				return violf("5656/gas", "pc %d: MCOPY(dst=%s,src=%s,len=%s) executed with %d gas although the specified cost is not payable", e.PC, dst.Hex(), src.Hex(), ln.Hex(), e.Gas)
			}
			continue
		}
		if e.Err != "" {
			return violf("5656/gas", "pc %d: MCOPY(dst=%s,src=%s,len=%s) failed with %q although cost %d <= gas %d", e.PC, dst.Hex(), src.Hex(), ln.Hex(), e.Err, cost, e.Gas)
		}
		if e.Cost != cost {
			return violf("5656/gas", "pc %d: MCOPY(dst=%s,src=%s,len=%s) with memory %d charged %d, specified %d", e.PC, dst.Hex(), src.Hex(), ln.Hex(), oldSize, e.Cost, cost)
		}
		nxt := nextInFrame(evs, i)
		if nxt < 0 {
			return violf("5656/copy", "pc %d: frame ended after a successful MCOPY step", e.PC)
		}
		ne := &evs[nxt]
		if ne.K == EvFault {
			return violf("5656/copy", "pc %d: MCOPY faulted: %s", e.PC, ne.Err)
		}
		if uint64(ne.MemLen) != newSize {
			return violf("5656/size", "pc %d: MCOPY(dst=%s,src=%s,len=%s) memory size %d -> %d, specified %d", e.PC, dst.Hex(), src.Hex(), ln.Hex(), oldSize, ne.MemLen, newSize)
		}
		if e.Mem == nil && e.MemLen > 0 || ne.Mem == nil && ne.MemLen > 0 {
			st.Label("mcopy-memory-too-large-to-compare")
			continue
		}
		// memmove on a zero-extended buffer
		want := make([]byte, newSize)
		copy(want, e.Mem)
		if !ln.IsZero() {
			d, s, l := dst.Uint64(), src.Uint64(), ln.Uint64()
			tmp := append([]byte(nil), want[s:s+l]...)
			copy(want[d:d+l], tmp)
			if (d < s+l && s < d+l) && d != s {
				addLab("mcopy-overlap")
				if newSize > oldSize {
					addLab("mcopy-overlap-expanding")
				}
			}
			if newSize > oldSize {
				addLab("mcopy-expanding")
			}
		} else {
			addLab("mcopy-zero-length")
		}
		if !bytes.Equal(want, ne.Mem) {
			return violf("5656/copy", "pc %d: MCOPY(dst=%s,src=%s,len=%s) memory after differs from memmove model\n got:  %x\n want: %x", e.PC, dst.Hex(), src.Hex(), ln.Hex(), ne.Mem, want)
		}
		addLab("mcopy")
	}

	// ---------------- (d) before Cancun the three bytes are invalid ----------------
	if ex.PreFork != "" {
		pre := sc.Clone()
		pre.Fork = ex.PreFork
		pre.ExtraEips = nil
		pr := RunArtela(pre, ArtelaOpts{Debug: true})
		for i := range pr.Obs {
			if pr.Obs[i].Panic != "" {
				return violf("panic", "panic on fork %s: %s", ex.PreFork, pr.Obs[i].Panic)
			}
		}
		pe := pr.Rec.Evs
		for i := range pe {
			e := &pe[i]
			if e.K != EvStep || !(e.Op == TLOAD || e.Op == TSTORE || e.Op == MCOPY) {
				continue
			}
			ok := i+1 < len(pe) && pe[i+1].K == EvFault && pe[i+1].PC == e.PC && strings.HasPrefix(pe[i+1].Err, "invalid opcode")
			if e.Err != "" {
				ok = strings.HasPrefix(e.Err, "invalid opcode")
			}
			if !ok {
				return violf("pre-cancun", "fork %s: byte %02x at pc %d did not raise invalid opcode", ex.PreFork, e.Op, e.PC)
			}
			addLab("pre-cancun-invalid")
		}
	}

	nontrivial := lab["mcopy-overlap-expanding"] || lab["tload-after-reverted-tstore"]
	labels = append(labels, "prefork:"+ex.PreFork)
	st.LabelN("steps", rec.Steps)
	st.Case(sc.JSON(), nontrivial, sc, labels...)
	return nil
}

func opName(op byte) string {
	switch op {
	case TLOAD:
		return "TLOAD"
	case TSTORE:
		return "TSTORE"
	case MCOPY:
		return "MCOPY"
	}
	return fmt.Sprintf("op%02x", op)
}

// genTsScenario builds small scripted contracts around transient storage:
// writes, reads (made observable through SSTORE), calls of every kind between
// the contracts and failing frames, so that "TSTORE in a frame that later fails,
// then TLOAD" is frequent.
func genTsScenario(t *rapid.T) *Scenario {
	n := uniform(t, 2, 3, "tsn")
	sc := &Scenario{Fork: "Cancun"}
	for ci := 0; ci < n; ci++ {
		a := NewAsm()
		steps := rapid.IntRange(2, 9).Draw(t, "tssteps")
		if chance(t, 10, "tsfull") {
			// stack-limit boundary: the three instructions executed with exactly 1024 (or
			// 1023) items on the stack - each pops at least as many as it pushes, so the
			// limit cannot be what stops them
			a.Push(uint64(rapid.IntRange(1, 3).Draw(t, "tsfv"))).Push(1).Op(TSTORE)
			op := []byte{TLOAD, TSTORE, MCOPY}[uniform(t, 0, 2, "tsfop")]
			operands := map[byte]int{TLOAD: 1, TSTORE: 2, MCOPY: 3}[op]
			fill := 1024 - operands - uniform(t, 0, 1, "tsfslack")
			for i := 0; i < fill; i++ {
				a.Push(0x99)
			}
			switch op {
			case TLOAD:
				a.Push(1).Op(TLOAD)
			case TSTORE:
				a.Push(7).Push(2).Op(TSTORE)
			default:
				a.Push(32).Push(0).Push(32).Op(MCOPY)
			}
			a.Op(POP)
			steps = 0
		}
		for i := 0; i < steps; i++ {
			k := uint64(uniform(t, 0, 2, "tsk"))
			switch uniform(t, 0, 9, "tsact") {
			case 0, 1, 2:
				a.Push(uint64(rapid.IntRange(0, 3).Draw(t, "tsv"))).Push(k).Op(TSTORE)
			case 3, 4:
				a.Push(k).Op(TLOAD).Push(uint64(uniform(t, 0, 3, "tsslot"))).Op(SSTORE)
			case 5, 6, 7:
				kind := []byte{CALL, CALL, DELEGATECALL, STATICCALL, CALLCODE}[uniform(t, 0, 4, "tscallk")]
				to := ContractAddrs[uniform(t, 0, n-1, "tscallto")]
				a.Push(0).Push(0).Push(0).Push(0)
				if kind == CALL || kind == CALLCODE {
					a.Push(0)
				}
				a.Push(to[:])
				// half of the remaining gas, so that re-entrancy terminates quickly
				a.Push(2).Op(GAS, DIV)
				a.Op(kind, POP)
			case 8:
				d, s2, l := rapid.IntRange(0, 96).Draw(t, "tsmd"), rapid.IntRange(0, 96).Draw(t, "tsms"), rapid.IntRange(0, 70).Draw(t, "tsml")
				a.Push(genWord(t, "tsmw")).Push(uint64(rapid.IntRange(0, 64).Draw(t, "tsmo"))).Op(MSTORE)
				a.Push(l).Push(s2).Push(d).Op(MCOPY)
			default:
				// conditional early failure depending on calldata size (top-level vs nested)
				skip := a.NewLabel()
				a.Op(CALLDATASIZE).Jumpi(skip)
				a.Push(0).Push(0).Op(REVERT)
				a.Label(skip)
			}
		}
		switch uniform(t, 0, 4, "tsend") {
		case 0, 1:
			a.Op(STOP)
		case 2, 3:
			a.Push(0).Push(0).Op(REVERT)
		default:
			a.Op(INVALID)
		}
		sc.Accounts = append(sc.Accounts, Account{Addr: ContractAddrs[ci], Nonce: 1, Code: a.Bytes(), Balance: hexU64(1000)})
	}
	sc.Accounts = append(sc.Accounts, Account{Addr: EOAAddr, Balance: hexU64(1 << 40), Nonce: 1})
	ninv := uniform(t, 1, 3, "tsinv")
	for i := 0; i < ninv; i++ {
		kind := []string{"call", "call", "call", "staticcall", "delegatecall", "callcode"}[uniform(t, 0, 5, "tsinvk")]
		inv := Invocation{Kind: kind, Origin: EOAAddr, Caller: EOAAddr, To: ContractAddrs[uniform(t, 0, n-1, "tsinvto")], Gas: 400000, JP: rapid.Bool().Draw(t, "tsjp")}
		if chance(t, 70, "tsdata") {
			inv.Input = []byte{1}
		}
		if kind == "delegatecall" || kind == "callcode" {
			inv.Caller = ContractAddrs[uniform(t, 0, n-1, "tsinvfrom")]
		}
		sc.Invs = append(sc.Invs, inv)
	}
	return sc
}

func genC15(t *rapid.T) *Scenario {
	if rapid.Bool().Draw(t, "tsfamily") {
		sc := genTsScenario(t)
		ex := c15Extra{PreFork: ForkNames[uniform(t, 0, 11, "prefork")]}
		sc.Extra, _ = json.Marshal(ex)
		return sc
	}
	sc := GenProgScenario(t, ProgCfg{Fork: "Cancun", Extra: []int{}, NoArtelaPre: true, Focus: []byte{TLOAD, TSTORE, TSTORE, MCOPY, MCOPY, MSTORE, MSIZE}, FocusPct: 55, Contracts: uniform(t, 1, 3, "c15contracts")})
	// more static / delegate entry points and several invocations so that the
	// per-transaction reset and the static refusal are exercised
	ex := c15Extra{PreFork: ForkNames[uniform(t, 0, 11, "prefork")]}
	sc.Extra, _ = json.Marshal(ex)
	return sc
}

func TestC15(t *testing.T)       { runProp(t, "C15", genC15, checkC15) }
func TestC15Replay(t *testing.T) { replayProp(t, "C15", checkC15) }
