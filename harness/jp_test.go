package h

import (
	"bytes"
	"fmt"
	"math/big"
	"testing"

	avm "github.com/artela-network/artela-evm/vm"
	atypes "github.com/artela-network/aspect-core/types"
	"github.com/ethereum/go-ethereum/common"
	"pgregory.net/rapid"
)

// ---- join-point analysis shared by C04, C05, C06 ----------------------------

type aspectRun struct {
	Spec            AspectSpec
	SpecKnown       bool
	EnterEv, ExitEv int
	GasIn, GasOut   uint64
	Err             string
	ErrIs           error
}

type jpFiring struct {
	Frame     *Frame
	Post      bool
	LookupEv  int
	LookupIdx int
	Faulted   bool // the provider double failed this lookup
	Aspects   []aspectRun
	Err       string // resulting error of the join point ("" = passed)
}

type jpAnalysis struct {
	art      *ArtelaRun
	fl       *FrameLog
	attempts []*Attempt
	byFrame  map[*Frame]*Attempt
	treeIdx  map[*Frame]int // call-tree index of recorded frames
	firings  []*jpFiring
	pre      map[*Frame][]*jpFiring
	post     map[*Frame][]*jpFiring
	other    []int // lookup events that belong to no Call-path frame
}

// precompile set per fork, written down here independently of the code under test
func isPrecompileAddr(fork string, a common.Address) bool {
	for _, b := range a[:19] {
		if b != 0 {
			return false
		}
	}
	idx := forkIndex(fork)
	n := a[19]
	switch {
	case n >= 1 && n <= 4:
		return true
	case n >= 5 && n <= 8:
		return idx >= 4
	case n == 9:
		return idx >= 7
	case n >= 0x64 && n <= 0x66:
		return idx >= 8
	}
	return false
}

func analyseJP(sc *Scenario, opt ArtelaOpts) (*jpAnalysis, string) {
	rec := NewRecorder()
	rec.KeepMem = true
	opt.Debug = true
	opt.Rec = rec
	art := RunArtela(sc, opt)
	for i := range art.Obs {
		if art.Obs[i].Panic != "" {
			return nil, fmt.Sprintf("panic in invocation %d: %s", i, art.Obs[i].Panic)
		}
	}
	fl, err := BuildFrames(rec.Evs)
	if err != nil {
		return nil, "unbalanced stream: " + err.Error()
	}
	an := &jpAnalysis{art: art, fl: fl, byFrame: map[*Frame]*Attempt{}, treeIdx: map[*Frame]int{}, pre: map[*Frame][]*jpFiring{}, post: map[*Frame][]*jpFiring{}}
	an.attempts = BuildAllAttempts(sc, rec.Evs, fl, art.Obs)
	k := 0
	for _, a := range an.attempts {
		if a.Frame != nil {
			an.byFrame[a.Frame] = a
		}
		if a.Tree {
			if a.Frame != nil {
				an.treeIdx[a.Frame] = k
			}
			k++
		}
	}
	faults := map[int]bool{}
	for _, f := range sc.Faults {
		faults[f.Lookup] = true
	}
	evs := rec.Evs
	var cur *jpFiring
	for i := range evs {
		e := &evs[i]
		switch e.K {
		case EvLookup:
			F := fl.Owner[i]
			f := &jpFiring{Frame: F, Post: e.PointCut == string(atypes.POST_CONTRACT_CALL_METHOD), LookupEv: i, LookupIdx: int(e.PC), Faulted: faults[int(e.PC)]}
			if f.Faulted {
				for _, x := range sc.Faults {
					if x.Lookup == f.LookupIdx {
						f.Err = x.Text
					}
				}
			}
			an.firings = append(an.firings, f)
			cur = f
			if F == nil {
				an.other = append(an.other, i)
				continue
			}
			if f.Post {
				an.post[F] = append(an.post[F], f)
			} else {
				an.pre[F] = append(an.pre[F], f)
			}
		case EvAspectEnter:
			if cur != nil {
				ar := aspectRun{EnterEv: i, ExitEv: -1, GasIn: e.Gas}
				// which double is this? (aspect ids encode contract, point cut and position)
				for _, b := range sc.Bindings {
					specs, post := b.Pre, false
					if cur.Post {
						specs, post = b.Post, true
					}
					for n, sp := range specs {
						if AspectID(b.Contract, post, n) == e.Aspect {
							ar.Spec, ar.SpecKnown = sp, true
						}
					}
				}
				cur.Aspects = append(cur.Aspects, ar)
			}
		case EvAspectExit:
			if cur != nil && len(cur.Aspects) > 0 {
				a := &cur.Aspects[len(cur.Aspects)-1]
				a.ExitEv, a.GasOut, a.Err, a.ErrIs = i, e.Gas, e.Err, e.ErrIs
				if e.Err != "" {
					cur.Err = e.Err
				}
			}
		}
	}
	return an, ""
}

// transferBefore returns the transfer event that immediately precedes the
// opening of a Call-path frame (nil if there is none).
func transferBefore(evs []Ev, f *Frame) *Ev {
	for j := f.OpenEv - 1; j >= 0; j-- {
		switch evs[j].K {
		case EvTransfer:
			return &evs[j]
		case EvCanTransfer, EvInvBegin, EvTxStart:
			continue
		default:
			return nil
		}
	}
	return nil
}

// frameNaturalResult derives what the frame's own code returned from its last
// step: (ret, errText, gasLeft, exact)
func frameNaturalResult(evs []Ev, f *Frame) (ret []byte, errText string, gasLeft uint64, exact bool) {
	if f.Last < 0 {
		return nil, "", f.Gas, true
	}
	e := &evs[f.Last]
	if e.K == EvFault || e.Err != "" {
		return nil, e.Err, 0, false
	}
	n := len(e.Stack)
	switch e.Op {
	case STOP:
		return nil, "", e.Gas - e.Cost, true
	case SELFDESTRUCT:
		return nil, "", e.Gas - e.Cost, true
	case RETURN, REVERT:
		if n < 2 || e.Mem == nil && e.MemLen > 0 {
			return nil, "", 0, false
		}
		off, size := e.Stack[n-1], e.Stack[n-2]
		if !size.IsUint64() || size.Uint64() > 1<<20 {
			return nil, "", 0, false
		}
		ret = memWindow(e.Mem, off.Uint64(), size.Uint64())
		if e.Op == REVERT {
			errText = "execution reverted"
		}
		return ret, errText, e.Gas - e.Cost, true
	}
	return nil, "", 0, false
}

// ---- C05 --------------------------------------------------------------------

func checkC05(sc *Scenario, st *Stats) *Violation {
	an, bad := analyseJP(sc, ArtelaOpts{})
	if bad != "" {
		// no frame analysis is possible: the VM panicked or its event stream is not well nested
		return violf("panic-or-unbalanced", "%.1500s", bad)
	}
	evs := an.art.Rec.Evs
	nested, special, prefail := 0, false, false
	for _, F := range an.fl.Frames {
		jpOn := sc.Invs[F.Inv].JP
		where := fmt.Sprintf("frame #%d (inv %d, kind %02x, to %x)", F.Idx, F.Inv, F.Kind, F.To)
		if F.Kind != CALL {
			// CALLCODE / DELEGATECALL / STATICCALL / CREATE frames: the statement is
			// read as "the Call entry point"; join points there are neither required
			// nor forbidden - except that with join points off nothing may fire.
			if !jpOn && (len(an.pre[F]) > 0 || len(an.post[F]) > 0) {
				return violf("jp-off", "%s: a join point fired although join points are switched off", where)
			}
			continue
		}
		xfer := transferBefore(evs, F)
		hasCode := F.First >= 0
		if xfer != nil {
			hasCode = xfer.CodeLen > 0
		}
		eligible := jpOn && hasCode && !isPrecompileAddr(sc.Fork, F.To)
		pre, post := an.pre[F], an.post[F]
		if !eligible {
			if len(pre) > 0 || len(post) > 0 {
				why := "join points are off"
				if jpOn {
					why = "the target is a precompile or has no code"
				}
				return violf("not-eligible", "%s: %d pre / %d post join point lookups although %s", where, len(pre), len(post), why)
			}
			continue
		}
		if len(pre) != 1 {
			return violf("pre-count", "%s: %d pre-call join point lookups, expected exactly 1", where, len(pre))
		}
		p := pre[0]
		if evs[p.LookupEv].To != F.To {
			return violf("pre-target", "%s: pre join point looked up contract %x", where, evs[p.LookupEv].To)
		}
		if F.First >= 0 && p.LookupEv > F.First {
			return violf("pre-order", "%s: pre join point fired after the callee's first instruction", where)
		}
		idx, haveIdx := an.treeIdx[F]
		// payload (only visible when an aspect is bound)
		for ai, ar := range p.Aspects {
			e := &evs[ar.EnterEv]
			req, ok := e.Req.(*atypes.PreContractCallInput)
			if !ok || req.Call == nil {
				return violf("pre-payload", "%s: pre join point request has type %T", where, e.Req)
			}
			c := req.Call
			val := new(big.Int)
			if F.Value != nil {
				val = F.Value
			}
			if !bytes.Equal(c.From, F.From[:]) || !bytes.Equal(c.To, F.To[:]) || !bytes.Equal(c.Data, F.Input) || new(big.Int).SetBytes(c.Value).Cmp(val) != 0 {
				return violf("pre-payload", "%s: pre payload from=%x to=%x data=%x value=%x, call was from=%x data=%x value=%s", where, c.From, c.To, c.Data, c.Value, F.From, F.Input, val)
			}
			if e.From != F.From || e.To != F.To || !bytes.Equal(e.Input, F.Input) || (e.Value != nil && e.Value.Cmp(val) != 0) {
				return violf("pre-payload", "%s: aspect enter arguments do not describe this call", where)
			}
			if ai == 0 && (c.Gas == nil || *c.Gas != F.Gas || e.Gas != F.Gas) {
				return violf("pre-gas", "%s: pre join point saw gas %v/%d, the call was given %d", where, c.Gas, e.Gas, F.Gas)
			}
			if haveIdx && (c.Index == nil || *c.Index != uint64(idx)) {
				return violf("pre-index", "%s: pre join point saw call index %v, the call has index %d", where, c.Index, idx)
			}
		}
		for _, f := range append(append([]*jpFiring{}, pre...), post...) {
			for _, ar := range f.Aspects {
				if ar.SpecKnown && (ar.Spec.End == "ok" || ar.Spec.End == "") && ar.Spec.Burn <= 10 && ar.GasIn >= 20000 && ar.Err != "" {
					return violf("aspect-not-run", "%s (calldata %d bytes, value %v): a no-op Aspect bound to its join point did not run: %.200s", where, len(F.Input), F.Value, ar.Err)
				}
			}
		}
		if len(p.Aspects) > 0 {
			nested++
			if len(F.Input) == 0 || (F.Value != nil && F.Value.Sign() > 0) {
				special = true
			}
		}
		if p.Err != "" {
			prefail = true
			if F.First >= 0 {
				return violf("pre-fail-ran", "%s: the pre join point failed (%.60s) but the callee executed instructions", where, p.Err)
			}
			if len(post) != 0 {
				return violf("pre-fail-post", "%s: the pre join point failed but the post join point fired", where)
			}
			if F.Err == "" {
				return violf("pre-fail-ok", "%s: the pre join point failed but the call reports success", where)
			}
			continue
		}
		if len(post) != 1 {
			return violf("post-count", "%s: %d post-call join point lookups, expected exactly 1", where, len(post))
		}
		q := post[0]
		if evs[q.LookupEv].To != F.To {
			return violf("post-target", "%s: post join point looked up contract %x", where, evs[q.LookupEv].To)
		}
		if F.Last >= 0 && q.LookupEv < F.Last {
			return violf("post-order", "%s: post join point fired before the callee's last instruction", where)
		}
		nret, nerr, ngas, exact := frameNaturalResult(evs, F)
		for ai, ar := range q.Aspects {
			e := &evs[ar.EnterEv]
			req, ok := e.Req.(*atypes.PostContractCallInput)
			if !ok || req.Call == nil {
				return violf("post-payload", "%s: post join point request has type %T", where, e.Req)
			}
			c := req.Call
			val := new(big.Int)
			if F.Value != nil {
				val = F.Value
			}
			if !bytes.Equal(c.From, F.From[:]) || !bytes.Equal(c.To, F.To[:]) || !bytes.Equal(c.Data, F.Input) || new(big.Int).SetBytes(c.Value).Cmp(val) != 0 {
				return violf("post-payload", "%s: post payload from=%x to=%x data=%x value=%x, call was from=%x data=%x value=%s", where, c.From, c.To, c.Data, c.Value, F.From, F.Input, val)
			}
			if haveIdx && (c.Index == nil || *c.Index != uint64(idx)) {
				return violf("post-index", "%s: post join point saw call index %v, the call has index %d", where, c.Index, idx)
			}
			gotErr := ""
			if c.Error != nil {
				gotErr = *c.Error
			}
			if F.Last >= 0 {
				le := &evs[F.Last]
				if le.K == EvFault || le.Err != "" {
					nerr = le.Err
				}
			}
			if gotErr != nerr {
				return violf("post-error", "%s: post join point saw error %q, the callee ended with %q", where, gotErr, nerr)
			}
			if exact {
				if !bytes.Equal(c.Ret, nret) {
					return violf("post-ret", "%s: post join point saw return data %x, the callee returned %x", where, c.Ret, nret)
				}
				if ai == 0 && (c.Gas == nil || *c.Gas != ngas) {
					return violf("post-gas", "%s: post join point saw gas %v, the callee left %d", where, c.Gas, ngas)
				}
			} else if c.Gas != nil && *c.Gas > F.Gas {
				return violf("post-gas", "%s: post join point saw more gas (%d) than the call was given (%d)", where, *c.Gas, F.Gas)
			}
		}
	}
	if len(an.other) > 0 {
		return violf("stray", "%d join point lookups outside any frame", len(an.other))
	}
	nontrivial := nested >= 2 && (special || prefail)
	labels := []string{"fork:" + sc.Fork}
	if special {
		labels = append(labels, "empty-calldata-or-value")
	}
	if prefail {
		labels = append(labels, "pre-join-point-failed")
	}
	if len(sc.Faults) > 0 {
		labels = append(labels, "provider-faults")
	}
	st.LabelN("bound-firings", nested)
	st.LabelN("lookups", len(an.firings))
	st.Case(sc.JSON(), nontrivial, sc, labels...)
	return nil
}

// bindAspects draws bindings for a subset of the scenario's contracts.
func bindAspects(t *rapid.T, sc *Scenario, specs []AspectSpec, pct int) {
	for _, a := range sc.Accounts {
		if len(a.Code) == 0 || !chance(t, pct, "bind") {
			continue
		}
		b := AspectBinding{Contract: a.Addr}
		npre := uniform(t, 0, 2, "npre")
		for i := 0; i < npre; i++ {
			b.Pre = append(b.Pre, specs[uniform(t, 0, len(specs)-1, "prespec")])
		}
		npost := uniform(t, 0, 2, "npost")
		for i := 0; i < npost; i++ {
			b.Post = append(b.Post, specs[uniform(t, 0, len(specs)-1, "postspec")])
		}
		if len(b.Pre)+len(b.Post) > 0 {
			sc.Bindings = append(sc.Bindings, b)
		}
	}
}

func genC05(t *rapid.T) *Scenario {
	sc := GenTreeScenario(t, TreeCfg{MaxInvs: 3, Budget: 7, EmptyData: 35, ValuePct: 40, LowGasPct: 10, AllKinds: true})
	for i := range sc.Invs {
		sc.Invs[i].JP = !chance(t, 20, "jpoff")
	}
	specs := []AspectSpec{{Burn: 0, End: "ok"}, {Burn: 0, End: "ok"}, {Burn: 10, End: "ok"}, {Burn: 0, End: "ok"}, {Burn: 0, End: "trap"}, {Burn: 0, End: "revert"}}
	bindAspects(t, sc, specs, 60)
	if chance(t, 30, "faults") {
		n := rapid.IntRange(1, 2).Draw(t, "nfaults")
		for i := 0; i < n; i++ {
			sc.Faults = append(sc.Faults, Fault{Lookup: rapid.IntRange(0, 10).Draw(t, "faultat"), Text: "injected provider failure"})
		}
	}
	return sc
}

func TestC05(t *testing.T)       { runProp(t, "C05", genC05, checkC05) }
func TestC05Replay(t *testing.T) { replayProp(t, "C05", checkC05) }

var _ = avm.ErrOutOfGas

// ---- C06: gas conservation through join points --------------------------------

func lastAspect(f *jpFiring) *aspectRun {
	if f == nil || len(f.Aspects) == 0 {
		return nil
	}
	return &f.Aspects[len(f.Aspects)-1]
}

func checkC06(sc *Scenario, st *Stats) *Violation { return c06Laws(sc, st, true) }

// c06Laws checks the gas laws on one run; with sweep it re-checks them on variants
// of the scenario in which a top-level call is given EXACTLY what its pre join
// point burns (the Aspects leave 0), one more, and exactly what the whole frame
// consumes (the post join point leaves 0).
func c06Laws(sc *Scenario, st *Stats, sweep bool) *Violation {
	an, bad := analyseJP(sc, ArtelaOpts{})
	if bad != "" {
		// no frame analysis is possible: the VM panicked or its event stream is not well nested
		return violf("panic-or-unbalanced", "%.1500s", bad)
	}
	evs := an.art.Rec.Evs
	ct := an.art.EVM.Tracer().CallTree()
	burned, observed := false, false
	var labels []string
	lab := map[string]bool{}
	addLab := func(l string) {
		if !lab[l] {
			lab[l] = true
			labels = append(labels, l)
		}
	}
	// (3) no frame of any kind returns more than it was given
	for i, a := range an.attempts {
		if a.GasKnown && a.RetGasOK && a.Returned > a.Gas {
			return violf("returned>given", "attempt %d (op %02x at event %d): the caller got back %d gas, the callee was given %d", i, a.Op, a.Ev, a.Returned, a.Gas)
		}
	}
	// (4a) an aspect never leaves more gas than it got
	for _, f := range an.firings {
		for _, ar := range f.Aspects {
			if ar.ExitEv >= 0 && ar.GasOut > ar.GasIn {
				return violf("aspect-gas", "aspect execution at event %d reports %d gas left of %d", ar.EnterEv, ar.GasOut, ar.GasIn)
			}
			if ar.GasIn > ar.GasOut {
				burned = true
			}
		}
	}
	for _, F := range an.fl.Frames {
		if F.Kind != CALL {
			continue
		}
		pre, post := an.pre[F], an.post[F]
		if len(pre) != 1 {
			continue // not an eligible frame (C05 decides eligibility)
		}
		where := fmt.Sprintf("frame #%d (inv %d, to %x)", F.Idx, F.Inv, F.To)
		p := pre[0]
		att := an.byFrame[F]
		idx, haveIdx := an.treeIdx[F]
		var node *avm.Call
		if haveIdx {
			node = ct.FindCall(uint64(idx))
		}
		oogIdentity := func(what string) *Violation {
			if F.ErrIs != avm.ErrOutOfGas {
				return violf("oog-identity", "%s: %s join point ran out of gas but the frame ended with %T %q, not the EVM's own out-of-gas error", where, what, F.ErrIs, F.Err)
			}
			if node != nil && node.Err != avm.ErrOutOfGas {
				return violf("oog-identity", "%s: %s join point ran out of gas but the call-tree node carries %v", where, what, node.Err)
			}
			if F.Top && F.Depth == 0 && an.art.Obs[F.Inv].ErrIs != avm.ErrOutOfGas {
				return violf("oog-identity", "%s: %s join point ran out of gas but the entry point returned %v", where, what, an.art.Obs[F.Inv].ErrIs)
			}
			if att != nil && att.RetGasOK && att.Returned != 0 {
				return violf("oog-returned", "%s: %s join point ran out of gas but %d gas was returned", where, what, att.Returned)
			}
			return nil
		}
		la := lastAspect(p)
		if p.Err != "" {
			if la != nil && la.Err == "out of gas" {
				addLab("pre-out-of-gas")
				if v := oogIdentity("pre"); v != nil {
					return v
				}
			} else {
				addLab("pre-failed-other")
				// whatever the failing Aspect consumed stays consumed: the frame cannot
				// hand back more than the last Aspect execution left
				if la != nil && att != nil && att.RetGasOK && att.Returned > la.GasOut {
					return violf("pre-fail-gas", "%s: the pre join point failed (%.50s) after its Aspects left %d gas, but %d gas was handed back to the caller", where, p.Err, la.GasOut, att.Returned)
				}
				if la != nil && la.GasIn > la.GasOut {
					observed = true
				}
			}
			continue
		}
		// (1) the callee starts with exactly what the pre join point left
		if F.First >= 0 {
			want := F.Gas
			if la != nil {
				want = la.GasOut
			}
			if got := evs[F.First].Gas; got != want {
				return violf("callee-start-gas", "%s: callee's first instruction has %d gas, the pre join point left %d (call was given %d)", where, got, want, F.Gas)
			}
			if la != nil {
				observed = true
			}
		}
		if len(post) != 1 {
			continue
		}
		q := post[0]
		lq := lastAspect(q)
		_, _, ngas, exact := frameNaturalResult(evs, F)
		// the first post aspect starts with what the callee left
		if len(q.Aspects) > 0 && exact && q.Aspects[0].GasIn != ngas {
			return violf("post-start-gas", "%s: post join point starts with %d gas, the callee left %d", where, q.Aspects[0].GasIn, ngas)
		}
		// aspects on one join point are chained
		for _, f := range []*jpFiring{p, q} {
			for i := 1; i < len(f.Aspects); i++ {
				if f.Aspects[i].GasIn != f.Aspects[i-1].GasOut {
					return violf("chain-gas", "%s: aspect %d starts with %d gas, the previous one left %d", where, i, f.Aspects[i].GasIn, f.Aspects[i-1].GasOut)
				}
			}
		}
		if att == nil || !att.RetGasOK {
			continue
		}
		switch {
		case q.Err != "" && lq != nil && lq.Err == "out of gas":
			addLab("post-out-of-gas")
			if v := oogIdentity("post"); v != nil {
				return v
			}
		case q.Err != "" && (q.Err == "execution reverted" || (lq != nil && lq.Err == "execution reverted")):
			addLab("post-revert") // the statement leaves the gas outcome of an aspect revert open; law (3) applies
		case q.Err != "":
			addLab("post-failed-other")
			if att.Returned != 0 {
				return violf("post-fail-gas", "%s: the post join point failed (%.60s) but %d gas was returned", where, q.Err, att.Returned)
			}
			if F.Err == "" {
				return violf("post-fail-ok", "%s: the post join point failed but the call reports success", where)
			}
		default:
			// post passed: the caller gets back exactly what it left, if the frame
			// succeeded or reverted; nothing otherwise
			want := uint64(0)
			if F.ErrIs == nil || F.ErrIs == avm.ErrExecutionReverted {
				if lq != nil {
					want = lq.GasOut
					observed = true
				} else if exact {
					want = ngas
				} else {
					continue
				}
			}
			if att.Returned != want {
				return violf("returned-gas", "%s (err %q): the caller got back %d gas, the post join point left %d", where, F.Err, att.Returned, want)
			}
		}
	}
	// (4b) metamorphic: same run without aspects; if control flow is identical and
	// no frame forfeits gas, the leftover differs exactly by the reported burns
	if len(sc.Bindings) > 0 && len(sc.Faults) == 0 {
		plain := sc.Clone()
		plain.Bindings = nil
		pr := RunArtela(plain, ArtelaOpts{Debug: true})
		same := len(pr.Rec.Evs) > 0
		forfeits := false
		flow := func(evs []Ev) []string {
			var out []string
			for i := range evs {
				e := &evs[i]
				switch e.K {
				case EvStep, EvFault:
					out = append(out, fmt.Sprintf("%d/%d/%02x/%s", e.Depth, e.PC, e.Op, e.Err))
				case EvExit, EvEnd:
					out = append(out, "x:"+e.Err)
					if e.Err != "" && e.Err != "execution reverted" {
						forfeits = true
					}
				}
			}
			return out
		}
		fa, fb := flow(evs), flow(pr.Rec.Evs)
		if len(fa) != len(fb) {
			same = false
		} else {
			for i := range fa {
				if fa[i] != fb[i] {
					same = false
					break
				}
			}
		}
		// a call attempt that fails for another reason than a revert forfeits an
		// amount of gas that depends on how much was available (exceptional halt,
		// refused create / address collision): burns then do not add up linearly
		for _, a := range an.attempts {
			if !a.Failed {
				continue
			}
			if a.ErrKnown && a.ErrText == "execution reverted" {
				continue
			}
			if a.Frame == nil && isCallKind(a.Op) && !a.Top {
				continue // refused call (depth / balance): everything supplied comes back
			}
			forfeits = true
		}
		// a failing aspect changes the frame's error / gas fate: only runs in which
		// every aspect succeeded are comparable
		for _, f := range an.firings {
			if f.Err != "" {
				forfeits = true
			}
		}
		if same && !forfeits {
			addLab("metamorphic-compared")
			burnsPerInv := map[int]uint64{}
			for _, f := range an.firings {
				if f.Frame == nil {
					continue
				}
				for _, ar := range f.Aspects {
					burnsPerInv[f.Frame.Inv] += ar.GasIn - ar.GasOut
				}
			}
			for i := range sc.Invs {
				a, b := an.art.Obs[i].Gas, pr.Obs[i].Gas
				if b-a != burnsPerInv[i] {
					return violf("metamorphic-burn", "invocation %d: leftover gas without aspects %d, with aspects %d, reported burns %d", i, b, a, burnsPerInv[i])
				}
			}
		}
	}
	if sweep {
		variants := 0
		for _, F := range an.fl.Frames {
			if F.Kind != CALL || !F.Top || F.Depth != 0 || variants >= 3 {
				continue
			}
			pre := an.pre[F]
			if len(pre) != 1 || pre[0].Err != "" {
				continue
			}
			la := lastAspect(pre[0])
			if la == nil || la.GasOut >= F.Gas {
				continue
			}
			burn := F.Gas - la.GasOut
			gases := []uint64{burn, burn + 1}
			if att := an.byFrame[F]; att != nil && att.RetGasOK && att.Returned > 0 && att.Returned < F.Gas {
				gases = append(gases, F.Gas-att.Returned)
			}
			for _, g := range gases {
				v := sc.Clone()
				v.Invs[F.Inv].Gas = g
				variants++
				if viol := c06Laws(v, NewStats("C06"), false); viol != nil {
					viol.Fingerprint = "exact-gas/" + viol.Fingerprint
					viol.Msg = fmt.Sprintf("variant with invocation %d given exactly %d gas (its pre join point burns %d): %s", F.Inv, g, burn, viol.Msg)
					return viol
				}
			}
		}
		if variants > 0 {
			addLab("exact-gas-variants")
		}
	}
	nontrivial := burned && observed
	labels = append(labels, "fork:"+sc.Fork)
	st.Case(sc.JSON(), nontrivial, sc, labels...)
	return nil
}

func genC06(t *rapid.T) *Scenario {
	sc := GenTreeScenario(t, TreeCfg{MaxInvs: 2, Budget: 6, EmptyData: 15, ValuePct: 30, LowGasPct: 35, NoSelfd: false})
	specs := []AspectSpec{{Burn: 0, End: "ok"}, {Burn: 10, End: "ok"}, {Burn: 1000, End: "ok"}, {Burn: 30000, End: "ok"}, {Burn: 1000000000, End: "ok"},
		{Burn: 10, End: "trap"}, {Burn: 1000, End: "revert"}, {Burn: 1000, End: "ok"}, {Burn: 10, End: "ok"}}
	bindAspects(t, sc, specs, 75)
	if chance(t, 15, "faults") {
		sc.Faults = append(sc.Faults, Fault{Lookup: rapid.IntRange(0, 8).Draw(t, "faultat"), Text: "injected provider failure"})
	}
	return sc
}

func TestC06(t *testing.T)       { runProp(t, "C06", genC06, checkC06) }
func TestC06Replay(t *testing.T) { replayProp(t, "C06", checkC06) }
