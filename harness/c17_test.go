package h

import (
	"encoding/json"
	"fmt"
	"github.com/ethereum/go-ethereum/common"
	"math/big"
	"strings"
	"sync"
	"testing"
	"time"

	avm "github.com/artela-network/artela-evm/vm"
	"github.com/ethereum/go-ethereum/core/state"
	"pgregory.net/rapid"
)

// ---- C17: concurrent EVM instances do not interfere; cancellation is safe -----------

type c17Case struct {
	Scenarios []*Scenario `json:"scenarios"`
	// cancellation probe
	CancelAtStep int  `json:"cancelAtStep"` // harness-owned schedule: Cancel() is called at this step
	CrossAfter   int  `json:"crossAfter"`   // another goroutine cancels after this many observed steps (0 = off)
	LoopKind     int  `json:"loopKind"`
	Debug        bool `json:"debug"`
}

func runOutcome(sc *Scenario, debug bool) string {
	r := RunArtela(sc, ArtelaOpts{Debug: debug, ShareConfig: true})
	var sb strings.Builder
	for i := range r.Obs {
		sb.WriteString(r.Obs[i].Outcome())
		sb.WriteByte('\n')
	}
	ct := r.EVM.Tracer().CallTree()
	for i := 0; ; i++ {
		c := ct.FindCall(uint64(i))
		if c == nil {
			break
		}
		fmt.Fprintf(&sb, "call %d p=%d %x->%v gas=%v rem=%d err=%v\n", i, c.ParentIndex(), c.From, c.To, c.Gas, c.RemainingGas, c.Err)
	}
	return sb.String()
}

// loopProgram: an endless loop (bounded only by gas) with nested frames of a generated kind.
func loopProgram(kind int) *Scenario {
	a := NewAsm()
	self := ContractAddrs[0]
	a.Label("top")
	a.Push(1).Push(0).Op(MSTORE)
	switch kind {
	case 1:
		// call a helper that loops itself for a while
		h := ContractAddrs[1]
		a.Push(0).Push(0).Push(0).Push(0).Push(0).Push(h[:]).Push(20000).Op(CALL, POP)
	case 2:
		a.Push(0).Push(0).Push(0).Push(0).Push(self[:]).Push(3000).Op(STATICCALL, POP) // re-enters, runs out of its 3000 gas inside the loop
	}
	a.Push(1).Jumpi("top")
	a.Op(STOP)
	helper := NewAsm()
	helper.Push(50).Label("l").Push(1).Op(SWAP1, SUB, DUP1).Jumpi("l").Op(STOP)
	sc := &Scenario{Fork: "Shanghai"}
	sc.Accounts = []Account{{Addr: self, Nonce: 1, Code: a.Bytes()}, {Addr: ContractAddrs[1], Nonce: 1, Code: helper.Bytes()}, {Addr: EOAAddr, Balance: hexU64(1 << 40), Nonce: 1}}
	sc.Invs = []Invocation{{Kind: "call", Origin: EOAAddr, Caller: EOAAddr, To: self, Gas: 3_000_000, JP: true}}
	return sc
}

func checkC17(c c17Case, st *Stats) *Violation {
	n := len(c.Scenarios)
	// The concurrent pass comes FIRST: whatever an instance initialises lazily the first
	// time it is needed (a cache, a memoised name, a shared table) is then initialised
	// while other instances run. The sequential reference pass follows.
	want := make([]string, n)
	// concurrent pass: all at once, each twice
	got := make([]string, 2*n)
	var wg sync.WaitGroup
	start := make(chan struct{})
	for i := 0; i < 2*n; i++ {
		wg.Add(1)
		go func(i int) {
			defer wg.Done()
			<-start
			got[i] = runOutcome(c.Scenarios[i%n], c.Debug)
		}(i)
	}
	close(start)
	wg.Wait()
	for i, sc := range c.Scenarios {
		want[i] = runOutcome(sc, c.Debug)
	}
	for i := range got {
		if got[i] != want[i%n] {
			return violf("interference", "scenario %d gives another result when %d EVM instances run concurrently\n alone:      %.1500s\n concurrent: %.1500s", i%n, 2*n, want[i%n], got[i])
		}
	}
	// cancellation, harness-owned schedule
	loop := loopProgram(c.LoopKind)
	var evmRef *avm.EVM
	rec := NewRecorder()
	rec.KeepStack = false
	cancelled := -1
	rec.StepHook = func(r *Recorder, e *Ev) {
		if r.Steps == c.CancelAtStep && evmRef != nil {
			evmRef.Cancel()
			cancelled = len(r.Evs) - 1
		}
	}
	art := RunArtela(loop, ArtelaOpts{Debug: true, Rec: rec, OnEVM: func(evm *avm.EVM, s *state.StateDB) { evmRef = evm }})
	if art.Obs[0].Panic != "" {
		return violf("cancel/panic", "Cancel at step %d: panic: %.1200s", c.CancelAtStep, art.Obs[0].Panic)
	}
	if art.EVM.Tracer().CallTree().Current() != nil {
		return violf("cancel/cursor", "Cancel at step %d: call-tree cursor not at rest", c.CancelAtStep)
	}
	if d := checkBalanced(rec); d != "" {
		return violf("cancel/unbalanced", "Cancel at step %d: %s", c.CancelAtStep, d)
	}
	if cancelled >= 0 {
		// after the cancel every executed JUMP / JUMPI is the last step of its frame
		fl, err := BuildFrames(rec.Evs)
		if err != nil {
			return violf("cancel/unbalanced", "%v", err)
		}
		for i := cancelled + 1; i < len(rec.Evs); i++ {
			e := &rec.Evs[i]
			if e.K == EvStep && (e.Op == JUMP || e.Op == JUMPI) {
				if F := fl.Owner[i]; F != nil && F.Last != i {
					return violf("cancel/not-prompt", "Cancel at step %d: the jump at event %d (depth %d) was followed by further instructions of its frame", c.CancelAtStep, i, e.Depth)
				}
			}
		}
		if !art.EVM.Cancelled() {
			return violf("cancel/flag", "Cancelled() is false after Cancel()")
		}
	}
	// cross-goroutine cancel (smoke): finite gas makes the run end anyway
	if c.CrossAfter > 0 {
		var ev2 *avm.EVM
		var mu sync.Mutex
		steps := 0
		done := make(chan struct{})
		rec2 := NewRecorder()
		rec2.KeepStack = false
		rec2.StepHook = func(r *Recorder, e *Ev) {
			mu.Lock()
			steps = r.Steps
			mu.Unlock()
		}
		go func() {
			defer close(done)
			for k := 0; k < 100000; k++ {
				mu.Lock()
				s, e := steps, ev2
				mu.Unlock()
				if e != nil && s >= c.CrossAfter {
					e.Cancel()
					return
				}
				time.Sleep(10 * time.Microsecond)
			}
		}()
		art2 := RunArtela(loop, ArtelaOpts{Debug: true, Rec: rec2, OnEVM: func(evm *avm.EVM, s *state.StateDB) {
			mu.Lock()
			ev2 = evm
			mu.Unlock()
		}})
		<-done
		if art2.Obs[0].Panic != "" {
			return violf("cancel/panic", "cross-goroutine Cancel: panic: %.1200s", art2.Obs[0].Panic)
		}
		if art2.EVM.Tracer().CallTree().Current() != nil {
			return violf("cancel/cursor", "cross-goroutine Cancel: call-tree cursor not at rest")
		}
		st.Label("cross-goroutine-cancel")
	}
	labels := []string{fmt.Sprintf("instances:%d", 2*n)}
	extra, aspects := false, false
	for _, sc := range c.Scenarios {
		if len(sc.ExtraEips) > 0 {
			extra = true
		}
		if len(sc.Bindings) > 0 {
			aspects = true
		}
	}
	if extra {
		labels = append(labels, "with-extra-eips")
	}
	if aspects {
		labels = append(labels, "with-aspects")
	}
	if cancelled >= 0 {
		labels = append(labels, "cancel-hit")
	}
	b, _ := json.Marshal(c)
	st.Case(b, n >= 2, c, labels...)
	return nil
}

func genC17(t *rapid.T) c17Case {
	c := c17Case{CancelAtStep: rapid.IntRange(1, 400).Draw(t, "cancelat"), LoopKind: uniform(t, 0, 2, "loopkind"), Debug: rapid.Bool().Draw(t, "debug")}
	if chance(t, 30, "cross") {
		c.CrossAfter = rapid.IntRange(1, 2000).Draw(t, "crossafter")
	}
	n := uniform(t, 1, 8, "n")
	// the PUSH0 pair: London without / with EIP-3855 (exercises the per-instance jump table copy)
	push0 := NewAsm().Op(PUSH0).Push(1).Op(SSTORE, STOP).Bytes()
	for _, eips := range [][]int{nil, {3855}} {
		sc := &Scenario{Fork: "London", ExtraEips: eips, Note: "push0"}
		sc.Accounts = []Account{{Addr: ContractAddrs[0], Nonce: 1, Code: push0}, {Addr: EOAAddr, Balance: hexU64(1 << 40), Nonce: 1}}
		sc.Invs = []Invocation{{Kind: "call", Origin: EOAAddr, Caller: EOAAddr, To: ContractAddrs[0], Gas: 100000, JP: true}}
		c.Scenarios = append(c.Scenarios, sc)
	}
	// the context pair: two contracts that keep writing Aspect context through 0x66 by
	// plain CALL and read it back through 0x64 (the precompile instances live in a
	// package-level table shared by all EVMs; what a call binds must stay its own)
	for k := 0; k < 2; k++ {
		a := NewAsm()
		payload := append(append(append(word32(big.NewInt(64)), word32(big.NewInt(128))...), append(word32(big.NewInt(3)), common.RightPadBytes([]byte("key"), 32)...)...), append(word32(big.NewInt(5)), common.RightPadBytes([]byte("value"), 32)...)...)
		a.MstoreBytes(0, payload)
		top, end := a.NewLabel(), a.NewLabel()
		a.Push(uint64(20 + 10*k))
		a.Label(top)
		a.Op(DUP1, ISZERO).Jumpi(end)
		a.Push(0).Push(0).Push(len(payload)).Push(0).Push(0).Push(0x66).Push(60000).Op(CALL, POP)
		a.Push(0x20).Push(0x200).Push(23).Push(0).Push(0).Push(0x64).Push(60000).Op(CALL, POP)
		a.Push(1).Op(SWAP1, SUB).Jump(top)
		a.Label(end)
		a.Op(POP, STOP)
		sc := &Scenario{Fork: []string{"Berlin", "Shanghai"}[k], Note: "context-pair"}
		sc.Accounts = []Account{{Addr: ContractAddrs[k], Nonce: 1, Code: a.Bytes()}, {Addr: EOAAddr, Balance: hexU64(1 << 40), Nonce: 1}}
		sc.Invs = []Invocation{{Kind: "call", Origin: EOAAddr, Caller: EOAAddr, To: ContractAddrs[k], Gas: 5_000_000, JP: k == 1}}
		c.Scenarios = append(c.Scenarios, sc)
	}
	// the undefined-opcode pair: frames that end on byte values no fork defines, join
	// points on (the error text, which names the opcode, goes into the post join point
	// message): whatever naming an opcode touches is shared by all EVMs
	undefined := []byte{0x0c, 0x0d, 0x0e, 0x0f, 0x1e, 0x1f, 0x21, 0x22, 0x23, 0x24, 0x25, 0x26, 0x27, 0x28, 0x29, 0x2a, 0x2b, 0x2c, 0x2d, 0x2e, 0x2f,
		0x49, 0x4a, 0x4b, 0x4c, 0x4d, 0x4e, 0x4f, 0xa5, 0xa6, 0xa7, 0xa8, 0xa9, 0xaa, 0xab, 0xac, 0xad, 0xae, 0xaf, 0xb0, 0xb1, 0xb2, 0xb5, 0xb6, 0xb7, 0xb8, 0xb9, 0xba, 0xbb,
		0xc0, 0xc1, 0xc2, 0xc3, 0xc4, 0xc5, 0xc6, 0xc7, 0xc8, 0xc9, 0xca, 0xcb, 0xcc, 0xcd, 0xce, 0xcf, 0xd0, 0xd1, 0xd2, 0xd3, 0xd4, 0xd5, 0xd6, 0xd7, 0xd8, 0xd9, 0xda, 0xdb, 0xdc, 0xdd, 0xde, 0xdf,
		0xe8, 0xe9, 0xea, 0xeb, 0xec, 0xed, 0xee, 0xef, 0xf6, 0xf7, 0xf8, 0xf9, 0xfb, 0xfc}
	for k := 0; k < 2; k++ {
		op := undefined[uniform(t, 0, len(undefined)-1, "undefop")]
		sc := &Scenario{Fork: "Shanghai", Note: "undefined-opcode"}
		sc.Accounts = []Account{{Addr: ContractAddrs[k], Nonce: 1, Code: []byte{PUSH1, 1, PUSH1, 1, SSTORE, op}}, {Addr: EOAAddr, Balance: hexU64(1 << 40), Nonce: 1}}
		sc.Invs = []Invocation{{Kind: "call", Origin: EOAAddr, Caller: EOAAddr, To: ContractAddrs[k], Gas: 100000, JP: true}}
		c.Scenarios = append(c.Scenarios, sc)
	}
	for i := 0; i < n; i++ {
		var sc *Scenario
		switch uniform(t, 0, 4, "fam") {
		case 4:
			sc = genC14(t)
			sc.Extra = nil
		case 0:
			sc = GenProgScenario(t, ProgCfg{NoArtelaPre: true, MaxSnips: 8})
		case 1:
			sc = GenTreeScenario(t, TreeCfg{MaxInvs: 2, Budget: 6, Journal: true, ValuePct: 30, EmptyData: 10})
		case 2:
			sc = GenTreeScenario(t, TreeCfg{MaxInvs: 1, Budget: 4, ValuePct: 30, EmptyData: 10})
			bindAspects(t, sc, []AspectSpec{{Burn: 10, End: "ok"}, {Burn: 0, End: "ok"}, {Burn: 0, End: "trap"}}, 70)
		default:
			sc = genC16(t)
			sc.Extra = nil
		}
		c.Scenarios = append(c.Scenarios, sc)
	}
	return c
}

func TestC17(t *testing.T)       { runProp(t, "C17", genC17, checkC17) }
func TestC17Replay(t *testing.T) { replayProp(t, "C17", checkC17) }
