package h

import (
	"bytes"
	"encoding/json"
	"errors"
	"fmt"
	"math/big"
	"os"
	"runtime/debug"
	"strings"
	"testing"

	atracers "github.com/artela-network/artela-evm/tracers"
	avm "github.com/artela-network/artela-evm/vm"
	atypes "github.com/artela-network/aspect-core/types"
	"github.com/ethereum/go-ethereum/common"
	"github.com/ethereum/go-ethereum/common/hexutil"
	"pgregory.net/rapid"
)

// ---- C19: call tracers account for every EVM and Aspect frame exactly once ----

// The generated TREE is the oracle's input; its linearisation (the callback
// sequence the EVM would emit) is the tracer's input.

type evAspect struct {
	JP   int64           `json:"jp"` // 2 pre-tx, 4 pre-call, 8 post-call, 16 post-tx
	ID   int             `json:"id"`
	Addr *common.Address `json:"addr,omitempty"` // hybrid streams: the real aspect address
	// hybrid streams: the tracers keep the input slice they are handed without copying
	// (for real executions that is live caller memory); the statement does not cover
	// the input of an Aspect frame, so it is compared in synthetic streams only
	SkipInput bool      `json:"skipInput,omitempty"`
	GasIn     uint64    `json:"gasIn"`
	GasOut    uint64    `json:"gasOut"`
	Ret       []byte    `json:"ret,omitempty"`
	Err       string    `json:"err,omitempty"`
	Calls     []evFrame `json:"calls,omitempty"`
}

type evFrame struct {
	Type    byte       `json:"type"` // CALL, STATICCALL, DELEGATECALL, CALLCODE, CREATE, CREATE2, SELFDESTRUCT
	From    int        `json:"from"`
	To      int        `json:"to"` // index into c19Addrs (precompiles included)
	Input   []byte     `json:"input,omitempty"`
	Gas     uint64     `json:"gas"` // unique per frame: identifies the frame in the output
	GasUsed uint64     `json:"gasUsed"`
	Value   int64      `json:"value"` // -1: nil
	Output  []byte     `json:"output,omitempty"`
	Err     string     `json:"err,omitempty"`
	Pre     []evAspect `json:"pre,omitempty"`
	Calls   []evFrame  `json:"calls,omitempty"`
	Post    []evAspect `json:"post,omitempty"`
}

type evTx struct {
	GasLimit uint64          `json:"gasLimit"`
	RestGas  uint64          `json:"restGas"`
	PreTx    []evAspect      `json:"preTx,omitempty"`
	Top      evFrame         `json:"top"`
	PostTx   []evAspect      `json:"postTx,omitempty"`
	Tracer   string          `json:"tracer"`
	Cfg      map[string]bool `json:"cfg"`
}

var c19Addrs = []common.Address{addrN(0xc1, 1), addrN(0xc1, 2), addrN(0xc1, 3), addrN(0xe1, 1),
	common.BytesToAddress([]byte{2}), common.BytesToAddress([]byte{4}), common.BytesToAddress([]byte{0x64})}

func c19IsPrecompile(i int) bool { return cmpIsPre(i) }

// cmpAddrs / cmpIsPre: the address table the comparison functions resolve frame
// indices with (synthetic streams: c19Addrs; hybrid streams: built per case).
var (
	cmpAddrs = c19Addrs
	cmpIsPre = func(i int) bool { return i >= 4 }
)

var c19Errs = []string{"", "", "", "execution reverted", "out of gas", "invalid opcode: INVALID", "boom"}

type c19gen struct {
	t   *rapid.T
	gas uint64
	id  int
	// noPre: no precompile targets (calls issued by pre-transaction aspects happen
	// before CaptureStart tells the flat tracer which precompiles are active, so
	// whether they are pruned is not determined by the statement)
	noPre bool
}

func (g *c19gen) nextGas() uint64 { g.gas += 7; return g.gas }

func (g *c19gen) aspects(jp int64, depth int) []evAspect {
	t := g.t
	n := []int{0, 0, 1, 1, 2, 3}[uniform(t, 0, 5, "naspects")]
	var out []evAspect
	for i := 0; i < n; i++ {
		g.id++
		a := evAspect{JP: jp, ID: g.id, GasIn: g.nextGas()}
		a.GasOut = a.GasIn - uint64(rapid.IntRange(0, 6).Draw(t, "aburn"))
		a.Err = c19Errs[uniform(t, 0, len(c19Errs)-1, "aerr")]
		if chance(t, 50, "aret") {
			a.Ret = rapid.SliceOfN(rapid.Byte(), 1, 8).Draw(t, "aretdata")
		}
		if depth < 4 {
			nc := []int{0, 0, 0, 1, 2}[uniform(t, 0, 4, "acalls")]
			for j := 0; j < nc; j++ {
				a.Calls = append(a.Calls, g.frame(depth+1, false))
			}
		}
		out = append(out, a)
		if a.Err != "" {
			break // the runner stops at the first failing aspect
		}
	}
	return out
}

func (g *c19gen) frame(depth int, top bool) evFrame {
	t := g.t
	f := evFrame{Gas: g.nextGas(), From: uniform(t, 0, 3, "from")}
	kinds := []byte{CALL, CALL, CALL, STATICCALL, DELEGATECALL, CALLCODE, CREATE, CREATE2, SELFDESTRUCT}
	f.Type = kinds[uniform(t, 0, len(kinds)-1, "ftype")]
	if top {
		f.Type = []byte{CALL, CALL, CREATE}[uniform(t, 0, 2, "toptype")]
	}
	f.To = uniform(t, 0, 3, "to")
	if !top && !g.noPre && (f.Type == CALL || f.Type == STATICCALL) && chance(t, 25, "toprecompile") {
		f.To = uniform(t, 4, len(c19Addrs)-1, "toprecompilei")
	}
	f.GasUsed = uint64(rapid.IntRange(0, 5).Draw(t, "fused"))
	f.Value = int64(rapid.IntRange(0, 3).Draw(t, "fvalue"))
	if f.Type == STATICCALL {
		f.Value = -1
	}
	f.Input = rapid.SliceOfN(rapid.Byte(), 0, 6).Draw(t, "finput")
	f.Err = c19Errs[uniform(t, 0, len(c19Errs)-1, "ferr")]
	if chance(t, 60, "fout") {
		f.Output = rapid.SliceOfN(rapid.Byte(), 1, 8).Draw(t, "foutdata")
	}
	if f.Type == SELFDESTRUCT {
		f.Err, f.Output, f.Input, f.GasUsed = "", nil, nil, 0
		return f
	}
	leaf := c19IsPrecompile(f.To)
	if !leaf && f.Type == CALL {
		// join points exist on the Call path only
		f.Pre = g.aspects(4, depth)
	}
	preFailed := len(f.Pre) > 0 && f.Pre[len(f.Pre)-1].Err != ""
	if preFailed {
		f.Err = f.Pre[len(f.Pre)-1].Err
		return f
	}
	if !leaf && depth < 4 {
		nc := []int{0, 0, 1, 1, 2, 3}[uniform(t, 0, 5, "ncalls")]
		for i := 0; i < nc; i++ {
			f.Calls = append(f.Calls, g.frame(depth+1, false))
		}
	}
	if !leaf && f.Type == CALL {
		f.Post = g.aspects(8, depth)
		if n := len(f.Post); n > 0 && f.Post[n-1].Err != "" {
			f.Err = f.Post[n-1].Err
		}
	}
	return f
}

func genC19(t *rapid.T) evTx {
	g := &c19gen{t: t, gas: 1000}
	tx := evTx{GasLimit: 5_000_000}
	tx.RestGas = uint64(rapid.IntRange(0, 4_000_000).Draw(t, "rest"))
	if chance(t, 30, "pretx") {
		g.noPre = true
		tx.PreTx = g.aspects(2, 1)
		g.noPre = false
	}
	tx.Top = g.frame(0, true)
	if chance(t, 30, "posttx") {
		tx.PostTx = g.aspects(16, 1)
	}
	tx.Tracer = []string{"callTracer", "flatCallTracer"}[uniform(t, 0, 1, "tracer")]
	tx.Cfg = map[string]bool{}
	if tx.Tracer == "callTracer" {
		tx.Cfg["onlyTopCall"] = chance(t, 20, "onlyTopCall")
		tx.Cfg["withLog"] = rapid.Bool().Draw(t, "withLog")
	} else {
		tx.Cfg["convertParityErrors"] = rapid.Bool().Draw(t, "convertParityErrors")
		tx.Cfg["includePrecompiles"] = rapid.Bool().Draw(t, "includePrecompiles")
	}
	return tx
}

func errOf(s string) error {
	switch s {
	case "":
		return nil
	case "execution reverted":
		return avm.ErrExecutionReverted
	case "out of gas":
		return avm.ErrOutOfGas
	}
	return errors.New(s)
}

func bigOrNil(v int64) *big.Int {
	if v < 0 {
		return nil
	}
	return big.NewInt(v)
}

type c19Tracer interface {
	atracers.Tracer
	atypes.AspectLogger
}

func driveAspects(tr c19Tracer, as []evAspect, from, to common.Address, input []byte, value *big.Int) {
	for _, a := range as {
		num := uint64(scenBlockNumber)
		tr.CaptureAspectEnter(atypes.JoinPointRunType(a.JP), from, to, addrN(0xa5, a.ID), input, a.GasIn, value, &atypes.BlockInput{Number: &num})
		for i := range a.Calls {
			driveFrame(tr, &a.Calls[i])
		}
		tr.CaptureAspectExit(atypes.JoinPointRunType(a.JP), &atypes.AspectExecutionResult{Gas: a.GasOut, Ret: a.Ret, Err: errOf(a.Err)})
	}
}

func driveFrame(tr c19Tracer, f *evFrame) {
	from, to := c19Addrs[f.From], c19Addrs[f.To]
	tr.CaptureEnter(avm.OpCode(f.Type), from, to, f.Input, f.Gas, bigOrNil(f.Value))
	driveAspects(tr, f.Pre, from, to, f.Input, bigOrNil(f.Value))
	for i := range f.Calls {
		driveFrame(tr, &f.Calls[i])
	}
	driveAspects(tr, f.Post, from, to, f.Input, bigOrNil(f.Value))
	tr.CaptureExit(f.Output, f.GasUsed, errOf(f.Err))
}

func c19EVM() *avm.EVM {
	InitHost()
	cfg := ChainConfigFor("Shanghai")
	r := scenRandom
	return avm.NewEVM(avm.BlockContext{BlockNumber: big.NewInt(scenBlockNumber), Time: scenTime, Difficulty: big.NewInt(0), Random: &r,
		GetHash: blockHashFn}, avm.TxContext{GasPrice: big.NewInt(1)}, nil, cfg, avm.Config{})
}

// ---- decoded outputs ----

type outAspect struct {
	Type    string         `json:"type"`
	Aspect  common.Address `json:"aspect"`
	From    common.Address `json:"from"`
	To      common.Address `json:"to"`
	Input   hexutil.Bytes  `json:"input"`
	Gas     hexutil.Uint64 `json:"gas"`
	GasUsed hexutil.Uint64 `json:"gasUsed"`
	Output  hexutil.Bytes  `json:"output"`
	Error   string         `json:"error"`
	Calls   []outFrame     `json:"calls"`
}

type outFrame struct {
	Type       string          `json:"type"`
	From       common.Address  `json:"from"`
	To         *common.Address `json:"to"`
	Gas        hexutil.Uint64  `json:"gas"`
	GasUsed    hexutil.Uint64  `json:"gasUsed"`
	Output     hexutil.Bytes   `json:"output"`
	Error      string          `json:"error"`
	Calls      []outFrame      `json:"calls"`
	JoinPoints []outAspect     `json:"joinPoints"`
}

type outFlat struct {
	Action struct {
		CallType string          `json:"callType"`
		From     *common.Address `json:"from"`
		To       *common.Address `json:"to"`
		Aspect   *common.Address `json:"aspect"`
		Gas      *hexutil.Uint64 `json:"gas"`
		Input    *hexutil.Bytes  `json:"input"`
	} `json:"action"`
	Error  string `json:"error"`
	Result *struct {
		GasUsed *hexutil.Uint64 `json:"gasUsed"`
		Output  *hexutil.Bytes  `json:"output"`
	} `json:"result"`
	Subtraces    int    `json:"subtraces"`
	TraceAddress []int  `json:"traceAddress"`
	Type         string `json:"type"`
}

var jpNames = map[int64]string{2: "preTxExecute", 4: "preContractCall", 8: "postContractCall", 16: "postTxExecute"}

func opTypeName(b byte) string {
	switch b {
	case CALL:
		return "CALL"
	case STATICCALL:
		return "STATICCALL"
	case DELEGATECALL:
		return "DELEGATECALL"
	case CALLCODE:
		return "CALLCODE"
	case CREATE:
		return "CREATE"
	case CREATE2:
		return "CREATE2"
	case SELFDESTRUCT:
		return "SELFDESTRUCT"
	}
	return "?"
}

func cmpAspects(path string, encl *evFrame, want []evAspect, got []outAspect) string {
	if len(want) != len(got) {
		return fmt.Sprintf("%s: %d aspect executions emitted, %d happened", path, len(got), len(want))
	}
	for i := range want {
		w, g := &want[i], &got[i]
		p := fmt.Sprintf("%s/jp[%d]", path, i)
		wantAddr := addrN(0xa5, w.ID)
		if w.Addr != nil {
			wantAddr = *w.Addr
		}
		if g.Aspect != wantAddr || g.Type != jpNames[w.JP] {
			return fmt.Sprintf("%s: emitted aspect %x (%s), expected aspect #%d (%s)", p, g.Aspect, g.Type, w.ID, jpNames[w.JP])
		}
		if uint64(g.Gas) != w.GasIn || uint64(g.GasUsed) != w.GasIn-w.GasOut {
			return fmt.Sprintf("%s: gas %d used %d, the execution got %d and used %d", p, g.Gas, g.GasUsed, w.GasIn, w.GasIn-w.GasOut)
		}
		// the execution belongs to the call it was fired for: its parties and calldata
		wantIn := encl.Input
		if w.SkipInput {
			wantIn = g.Input
		}
		if g.From != cmpAddrs[encl.From] || g.To != cmpAddrs[encl.To] || string(g.Input) != string(wantIn) {
			return fmt.Sprintf("%s: from %x to %x input %x, the join point was fired for the call from %x to %x and got input %x", p, g.From, g.To, []byte(g.Input), cmpAddrs[encl.From], cmpAddrs[encl.To], wantIn)
		}
		if g.Error != w.Err {
			return fmt.Sprintf("%s: error %q, the execution ended with %q", p, g.Error, w.Err)
		}
		if (w.Err == "" || len(w.Ret) > 0) && string(g.Output) != string(w.Ret) {
			return fmt.Sprintf("%s: output %x, the execution returned %x", p, []byte(g.Output), w.Ret)
		}
		if d := cmpFrames(p, w.Calls, g.Calls); d != "" {
			return d
		}
	}
	return ""
}

func cmpFrames(path string, want []evFrame, got []outFrame) string {
	if len(want) != len(got) {
		return fmt.Sprintf("%s: %d calls emitted, %d were issued here", path, len(got), len(want))
	}
	for i := range want {
		if d := cmpFrame(fmt.Sprintf("%s/calls[%d]", path, i), &want[i], &got[i], false); d != "" {
			return d
		}
	}
	return ""
}

func cmpFrame(p string, w *evFrame, g *outFrame, top bool) string {
	if !top && uint64(g.Gas) != w.Gas {
		return fmt.Sprintf("%s: emitted frame with gas %d, expected the frame with gas %d (wrong frame / wrong place)", p, g.Gas, w.Gas)
	}
	if g.Type != opTypeName(w.Type) || g.From != cmpAddrs[w.From] {
		return fmt.Sprintf("%s: type %s from %x, expected %s from %x", p, g.Type, g.From, opTypeName(w.Type), cmpAddrs[w.From])
	}
	if !top && uint64(g.GasUsed) != w.GasUsed {
		return fmt.Sprintf("%s: gasUsed %d, expected %d", p, g.GasUsed, w.GasUsed)
	}
	if g.Error != w.Err {
		return fmt.Sprintf("%s: error %q, expected %q", p, g.Error, w.Err)
	}
	if w.Err == "" && string(g.Output) != string(w.Output) {
		return fmt.Sprintf("%s: output %x, expected %x", p, []byte(g.Output), w.Output)
	}
	all := append(append([]evAspect{}, w.Pre...), w.Post...)
	if d := cmpAspects(p, w, all, g.JoinPoints); d != "" {
		return d
	}
	return cmpFrames(p, w.Calls, g.Calls)
}

var c19Parity = map[string]string{"execution reverted": "Reverted", "out of gas": "Out of gas", "invalid opcode: INVALID": "Bad instruction", "boom": "boom", "": ""}

type flatWant struct {
	addr      []int
	sub       int
	gas       uint64
	gasUsed   uint64
	output    []byte
	from, to  common.Address
	input     []byte
	skipInput bool
	aspect    common.Address
	isAspect  bool
	err       string
	callType  string
	typ       string
}

func flatExpect(f *evFrame, addr []int, includePre bool, out *[]flatWant) {
	keep := func(c *evFrame) bool {
		return includePre || !((c.Type == CALL || c.Type == STATICCALL) && c19IsPrecompile(c.To))
	}
	var calls []*evFrame
	for i := range f.Calls {
		if keep(&f.Calls[i]) {
			calls = append(calls, &f.Calls[i])
		}
	}
	w := flatWant{addr: addr, sub: len(f.Pre) + len(calls) + len(f.Post), gas: f.Gas, gasUsed: f.GasUsed, output: f.Output, err: f.Err, callType: strings.ToLower(opTypeName(f.Type)), typ: "call"}
	switch f.Type {
	case CREATE, CREATE2:
		w.typ, w.callType = "create", ""
	case SELFDESTRUCT:
		w.typ, w.callType = "suicide", ""
	}
	*out = append(*out, w)
	n := 0
	child := func() []int { c := append(append([]int{}, addr...), n); n++; return c }
	aspect := func(a *evAspect) {
		var ac []*evFrame
		for i := range a.Calls {
			if keep(&a.Calls[i]) {
				ac = append(ac, &a.Calls[i])
			}
		}
		ad := child()
		aid := addrN(0xa5, a.ID)
		if a.Addr != nil {
			aid = *a.Addr
		}
		ain := f.Input
		if a.SkipInput {
			ain = nil
		}
		*out = append(*out, flatWant{addr: ad, sub: len(ac), gas: a.GasIn, gasUsed: a.GasIn - a.GasOut, output: a.Ret, isAspect: true, from: cmpAddrs[f.From], to: cmpAddrs[f.To], input: ain, skipInput: a.SkipInput, aspect: aid, err: a.Err, callType: strings.ToLower(jpNames[a.JP]), typ: "call"})
		for i, c := range ac {
			flatExpect(c, append(append([]int{}, ad...), i), includePre, out)
		}
	}
	for i := range f.Pre {
		aspect(&f.Pre[i])
	}
	for _, c := range calls {
		flatExpect(c, child(), includePre, out)
	}
	for i := range f.Post {
		aspect(&f.Post[i])
	}
}

func checkC19(tx evTx, st *Stats) (viol *Violation) {
	cmpAddrs, cmpIsPre = c19Addrs, func(i int) bool { return i >= 4 }
	cfgJSON, _ := json.Marshal(tx.Cfg)
	trAny, err := atracers.DefaultDirectory.New(tx.Tracer, &atracers.Context{BlockNumber: big.NewInt(scenBlockNumber), TxHash: txHash(0)}, cfgJSON)
	if err != nil {
		return violf("harness/new", "%v", err)
	}
	tr, ok := trAny.(c19Tracer)
	if !ok {
		return violf("no-aspect-logger", "tracer %s does not implement the Aspect logger interface", tx.Tracer)
	}
	var res json.RawMessage
	var resErr error
	func() {
		defer func() {
			if r := recover(); r != nil {
				viol = violf("panic", "tracer %s %s panicked: %v\n%s", tx.Tracer, cfgJSON, r, debug.Stack())
			}
		}()
		evm := c19EVM()
		top := &tx.Top
		from, to := c19Addrs[top.From], c19Addrs[top.To]
		tr.CaptureTxStart(tx.GasLimit)
		driveAspects(tr, tx.PreTx, from, to, top.Input, bigOrNil(top.Value))
		tr.CaptureStart(evm, from, to, top.Type == CREATE, top.Input, top.Gas, bigOrNil(top.Value))
		driveAspects(tr, top.Pre, from, to, top.Input, bigOrNil(top.Value))
		for i := range top.Calls {
			driveFrame(tr, &top.Calls[i])
		}
		driveAspects(tr, top.Post, from, to, top.Input, bigOrNil(top.Value))
		tr.CaptureEnd(top.Output, top.GasUsed, errOf(top.Err))
		driveAspects(tr, tx.PostTx, from, to, top.Input, bigOrNil(top.Value))
		tr.CaptureTxEnd(tx.RestGas)
		res, resErr = tr.GetResult()
	}()
	if viol != nil {
		return viol
	}
	if resErr != nil {
		return violf("result-error", "GetResult of %s failed on a well-nested stream: %v", tx.Tracer, resErr)
	}
	naspects, inAspectCalls, multi := 0, 0, false
	var count func(f *evFrame)
	countA := func(as []evAspect) {
		if len(as) >= 2 {
			multi = true
		}
		for i := range as {
			naspects++
			inAspectCalls += len(as[i].Calls)
			for j := range as[i].Calls {
				count(&as[i].Calls[j])
			}
		}
	}
	count = func(f *evFrame) {
		countA(f.Pre)
		countA(f.Post)
		for i := range f.Calls {
			count(&f.Calls[i])
		}
	}
	count(&tx.Top)
	countA(tx.PreTx)
	countA(tx.PostTx)

	if tx.Tracer == "callTracer" {
		var got outFrame
		if err := json.Unmarshal(res, &got); err != nil {
			return violf("decode", "%v: %s", err, res)
		}
		want := tx.Top
		// the transaction level join points are reported on the top frame: pre-tx first, post-tx last
		want.Pre = append(append([]evAspect{}, tx.PreTx...), want.Pre...)
		want.Post = append(append([]evAspect{}, want.Post...), tx.PostTx...)
		if uint64(got.Gas) != tx.GasLimit || uint64(got.GasUsed) != tx.GasLimit-tx.RestGas {
			return violf("top-gas", "top frame gas %d used %d, transaction had limit %d and %d left", got.Gas, got.GasUsed, tx.GasLimit, tx.RestGas)
		}
		if tx.Cfg["onlyTopCall"] {
			// nested calls are dropped on purpose; only the top frame itself is compared
			w2 := want
			w2.Calls, w2.Pre, w2.Post = nil, nil, nil
			g2 := got
			g2.Calls, g2.JoinPoints = nil, nil
			if d := cmpFrame("top", &w2, &g2, true); d != "" {
				return violf("nested/top", "%s", d)
			}
			if len(got.Calls) != 0 {
				return violf("only-top-call", "onlyTopCall emitted %d sub calls", len(got.Calls))
			}
		} else if d := cmpFrame("top", &want, &got, true); d != "" {
			return violf("nested", "%s\n result: %s", d, res)
		}
	} else {
		var got []outFlat
		if err := json.Unmarshal(res, &got); err != nil {
			return violf("decode", "%v: %s", err, res)
		}
		want := tx.Top
		want.Pre = append(append([]evAspect{}, tx.PreTx...), want.Pre...)
		want.Post = append(append([]evAspect{}, want.Post...), tx.PostTx...)
		var exp []flatWant
		flatExpect(&want, []int{}, tx.Cfg["includePrecompiles"], &exp)
		if len(exp) != len(got) {
			return violf("flat/count", "flat tracer emitted %d frames, %d EVM and Aspect frames happened (precompile calls removed: %v)\n result: %s", len(got), len(exp), !tx.Cfg["includePrecompiles"], res)
		}
		seen := map[string]bool{}
		for i := range exp {
			w, g := &exp[i], &got[i]
			p := fmt.Sprintf("flat[%d] addr %v", i, w.addr)
			ga := fmt.Sprint(g.TraceAddress)
			if seen[ga] {
				return violf("flat/address-dup", "%s: trace address %v emitted twice", p, g.TraceAddress)
			}
			seen[ga] = true
			if ga != fmt.Sprint(w.addr) {
				return violf("flat/address", "%s: trace address %v, expected %v", p, g.TraceAddress, w.addr)
			}
			if len(w.addr) > 0 && !seen[fmt.Sprint(w.addr[:len(w.addr)-1])] {
				return violf("flat/prefix", "%s: trace address %v emitted before its parent", p, g.TraceAddress)
			}
			if g.Subtraces != w.sub {
				return violf("flat/subtraces", "%s: subtraces %d, %d children are emitted", p, g.Subtraces, w.sub)
			}
			if i > 0 && g.Type != "suicide" && (g.Action.Gas == nil || uint64(*g.Action.Gas) != w.gas) {
				return violf("flat/frame", "%s: frame with gas %v, expected the frame with gas %d", p, g.Action.Gas, w.gas)
			}
			if g.Type != w.typ || (w.typ == "call" && g.Action.CallType != w.callType) {
				return violf("flat/type", "%s: type %s/%s, expected %s/%s", p, g.Type, g.Action.CallType, w.typ, w.callType)
			}
			if w.isAspect != (g.Action.Aspect != nil) {
				return violf("flat/aspect", "%s: aspect marker %v, expected aspect frame: %v", p, g.Action.Aspect != nil, w.isAspect)
			}
			if w.isAspect {
				var gin []byte
				if g.Action.Input != nil {
					gin = *g.Action.Input
				}
				if *g.Action.Aspect != w.aspect || g.Action.From == nil || *g.Action.From != w.from || g.Action.To == nil || *g.Action.To != w.to || (!w.skipInput && string(gin) != string(w.input)) {
					return violf("flat/aspect-identity", "%s: aspect %x from %v to %v input %x, expected aspect %x fired for the call from %x to %x with input %x", p, *g.Action.Aspect, g.Action.From, g.Action.To, gin, w.aspect, w.from, w.to, w.input)
				}
			}
			wantErr := w.err
			if tx.Cfg["convertParityErrors"] {
				wantErr = c19Parity[w.err]
			}
			if g.Error != wantErr {
				return violf("flat/error", "%s: error %q, expected %q", p, g.Error, wantErr)
			}
			// result: own gas used and output; kept for successful and for reverted
			// executions (the revert data is the reason), dropped for other failures
			if w.typ != "suicide" {
				keep := w.err == "" || w.err == "execution reverted"
				if keep != (g.Result != nil) {
					return violf("flat/result", "%s (error %q): result present: %v, expected: %v", p, w.err, g.Result != nil, keep)
				}
				if keep {
					wantUsed := w.gasUsed
					if i == 0 {
						wantUsed = tx.GasLimit - tx.RestGas
					}
					if g.Result.GasUsed == nil || uint64(*g.Result.GasUsed) != wantUsed {
						return violf("flat/gas-used", "%s: result.gasUsed %v, this execution used %d", p, g.Result.GasUsed, wantUsed)
					}
					if w.typ == "call" && (w.err == "" || (w.isAspect && len(w.output) > 0)) {
						var got []byte
						if g.Result.Output != nil {
							got = *g.Result.Output
						}
						if string(got) != string(w.output) {
							return violf("flat/output", "%s: result.output %x, this execution returned %x", p, got, w.output)
						}
					}
				}
			}
		}
	}
	nontrivial := multi || inAspectCalls > 0
	labels := []string{"tracer:" + tx.Tracer}
	if multi {
		labels = append(labels, "several-aspects-on-one-join-point")
	}
	if inAspectCalls > 0 {
		labels = append(labels, "call-inside-aspect")
	}
	for k, v := range tx.Cfg {
		if v {
			labels = append(labels, "cfg:"+k)
		}
	}
	b, _ := json.Marshal(tx)
	st.LabelN("aspect-executions", naspects)
	st.Case(b, nontrivial, tx, labels...)
	return nil
}

func TestC19(t *testing.T) { runProp(t, "C19", genC19, checkC19) }

// TestC19Replay dispatches on the case format: scenarios (hybrid stage) have a "fork".
func TestC19Replay(t *testing.T) {
	if *flagCase != "" {
		if b, err := os.ReadFile(*flagCase); err == nil && bytes.Contains(b, []byte(`"fork"`)) && bytes.Contains(b, []byte(`"invs"`)) {
			replayProp(t, "C19", checkC19Hybrid)
			return
		}
	}
	replayProp(t, "C19", checkC19)
}
