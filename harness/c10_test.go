package h

import (
	"bytes"
	"fmt"
	"testing"

	avm "github.com/artela-network/artela-evm/vm"
	"github.com/ethereum/go-ethereum/common"
	"github.com/ethereum/go-ethereum/core/state"
	"github.com/holiman/uint256"
	"pgregory.net/rapid"
)

// ---- C10: attribution of journal entries ---------------------------------------

type shadowKey struct {
	acct   common.Address
	slot   uint64
	offset uint64
	typeID uint64
}

func checkC10(sc *Scenario, st *Stats) *Violation {
	var stRef *state.StateDB
	rec := NewRecorder()
	rec.KeepMem = true
	rec.Hook = func(e *Ev) {
		// value of the storage word at the instant of a value-journal instruction
		if e.K == EvStep && e.Op == VVJNAL && stRef != nil && len(e.Stack) >= 4 {
			slot := e.Stack[len(e.Stack)-1]
			w := stRef.GetState(e.Addr, common.Hash(slot.Bytes32()))
			e.Digest = string(w[:])
		}
	}
	art := RunArtela(sc, ArtelaOpts{Debug: true, Rec: rec, OnEVM: func(evm *avm.EVM, s *state.StateDB) { stRef = s }})
	for i := range art.Obs {
		if art.Obs[i].Panic != "" {
			return violf("panic", "invocation %d: the VM panicked: %.1500s", i, art.Obs[i].Panic)
		}
	}
	fl, err := BuildFrames(rec.Evs)
	if err != nil {
		st.Exclude("unbalanced(C18)")
		return nil
	}
	attempts := BuildAttempts(sc, rec.Evs, fl, art.Obs)
	treeIdx := map[*Frame]int{}
	for k, a := range attempts {
		if a.Frame != nil {
			treeIdx[a.Frame] = k
		}
	}
	evs := rec.Evs
	shadow := map[shadowKey]map[uint64][][]byte{}
	names := map[shadowKey]string{}
	perKeyIdx := map[shadowKey]map[uint64]bool{}
	special, failedFrame := false, false
	njournal := 0
	for i := range evs {
		e := &evs[i]
		if e.K != EvStep || e.Op != VVJNAL || !stepSucceeded(evs, i) {
			continue
		}
		n := len(e.Stack)
		if n < 4 {
			continue
		}
		slot, off, size, typ := e.Stack[n-1], e.Stack[n-2], e.Stack[n-3], e.Stack[n-4]
		F := fl.Owner[i]
		if F == nil {
			continue
		}
		// storage account from the frame kinds, independently of the scope address
		if F.Storage != e.Addr {
			return violf("harness/context", "event %d: scope address %x but frame kinds say %x", i, e.Addr, F.Storage)
		}
		anc := RecordedAncestor(F)
		if anc == nil {
			st.Label("journal-without-recorded-frame(skipped)")
			continue
		}
		idx, ok := treeIdx[anc]
		if !ok {
			return violf("harness/index", "event %d: enclosing recorded frame has no call-tree index", i)
		}
		if !slot.IsUint64() || !off.IsUint64() || !size.IsUint64() || !typ.IsUint64() || off.Uint64()+size.Uint64() > 32 {
			continue // not produced by the generator's family
		}
		word := []byte(e.Digest)
		if len(word) != 32 {
			return violf("harness/word", "event %d: storage word not captured", i)
		}
		val := word[32-off.Uint64()-size.Uint64() : 32-off.Uint64()]
		k := shadowKey{e.Addr, slot.Uint64(), off.Uint64(), typ.Uint64()}
		if shadow[k] == nil {
			shadow[k] = map[uint64][][]byte{}
			perKeyIdx[k] = map[uint64]bool{}
		}
		l := shadow[k][uint64(idx)]
		if !(len(l) > 0 && bytes.Equal(l[len(l)-1], val)) {
			shadow[k][uint64(idx)] = append(l, append([]byte{}, val...))
		}
		perKeyIdx[k][uint64(idx)] = true
		njournal++
		if F.Kind == DELEGATECALL || F.Kind == CALLCODE || F.Create {
			special = true
		}
		if !F.AllOK() {
			failedFrame = true
		}
		for _, jk := range journalKeys {
			if jk.Slot == k.slot && jk.Offset == k.offset && jk.TypeID == k.typeID {
				names[k] = jk.Name
			}
		}
	}
	states := art.EVM.Tracer().StateChanges()
	addrs := c04Universe(sc, fl)
	multi := false
	for _, a := range addrs {
		for _, jk := range journalKeys {
			k := shadowKey{a, jk.Slot, jk.Offset, jk.TypeID}
			want := shadow[k]
			bySlot, err := states.Slot(a, uint256.NewInt(jk.Slot), uint256.NewInt(jk.Offset), common.BigToHash(new(uint256.Int).SetUint64(jk.TypeID).ToBig()))
			if err != nil {
				return violf("slot-lookup", "Slot(%x, %d, %d, %x) failed: %v", a, jk.Slot, jk.Offset, jk.TypeID, err)
			}
			byName := states.Variable(a, jk.Name)
			got := map[uint64][][]byte{}
			if bySlot != nil {
				got = bySlot.Changes()
			}
			if len(want) > 0 && bySlot == nil {
				return violf("missing", "account %x key %s (slot %d off %d): %d journaled call indices but no record", a, jk.Name, jk.Slot, jk.Offset, len(want))
			}
			if len(want) > 0 && byName != bySlot {
				return violf("views-differ", "account %x key %s: lookup by name and by slot reach different records", a, jk.Name)
			}
			for idx, w := range want {
				if fmt.Sprintf("%x", got[idx]) != fmt.Sprintf("%x", w) {
					return violf("sequence", "account %x key %s call index %d: recorded %x, journaled in that call (repeats collapsed) %x", a, jk.Name, idx, got[idx], w)
				}
			}
			for idx, g := range got {
				if _, ok := want[idx]; !ok && len(g) > 0 {
					return violf("misattributed", "account %x key %s: entries %x under call index %d, but no journal instruction ran for it in that call", a, jk.Name, g, idx)
				}
			}
			if len(want) >= 2 {
				multi = true
			}
		}
	}
	nontrivial := njournal > 0 && (multi || special || failedFrame)
	labels := []string{"fork:" + sc.Fork}
	if multi {
		labels = append(labels, "same-key-in-several-calls")
	}
	if special {
		labels = append(labels, "under-delegatecall-callcode-or-creation")
	}
	if failedFrame {
		labels = append(labels, "journal-in-failed-frame")
	}
	st.LabelN("journal-ops", njournal)
	st.Case(sc.JSON(), nontrivial, sc, labels...)
	return nil
}

func genC10(t *rapid.T) *Scenario {
	sc := GenTreeScenario(t, TreeCfg{MinFork: 4, MaxFork: 12, MaxInvs: 3, Budget: 10, EmptyData: 10, ValuePct: 20, LowGasPct: 5, Journal: true})
	return sc
}

func TestC10(t *testing.T)       { runProp(t, "C10", genC10, checkC10) }
func TestC10Replay(t *testing.T) { replayProp(t, "C10", checkC10) }
