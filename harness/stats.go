package h

import (
	"encoding/json"
	"fmt"
	"hash/fnv"
	"os"
	"path/filepath"
	"sort"
	"sync"
	"time"
)

// Stats collects what a check actually explored; it is dumped at the end of
// the test binary run and merged into evidence/<ID>.json by the driver.
type Stats struct {
	mu         sync.Mutex
	Prop       string
	Evals      int
	nontrivial map[uint64]struct{}
	all        map[uint64]struct{}
	Labels     map[string]int
	Samples    []json.RawMessage
	Excluded   map[string]int
	Known      map[string]int
	Extra      map[string]interface{}
	start      time.Time
	sampleCap  int
}

func NewStats(prop string) *Stats {
	return &Stats{Prop: prop, nontrivial: map[uint64]struct{}{}, all: map[uint64]struct{}{}, Labels: map[string]int{},
		Excluded: map[string]int{}, Known: map[string]int{}, Extra: map[string]interface{}{}, start: time.Now(), sampleCap: 4}
}

func hash64(b []byte) uint64 {
	h := fnv.New64a()
	h.Write(b)
	return h.Sum64()
}

// Case records one evaluated case. canon is the canonical encoding of the case
// (hashed for distinctness); sample is stored for the first few non-trivial cases.
func (s *Stats) Case(canon []byte, nontrivial bool, sample interface{}, labels ...string) {
	s.mu.Lock()
	defer s.mu.Unlock()
	s.Evals++
	hv := hash64(canon)
	s.all[hv] = struct{}{}
	for _, l := range labels {
		s.Labels[l]++
	}
	if nontrivial {
		if _, seen := s.nontrivial[hv]; !seen {
			s.nontrivial[hv] = struct{}{}
			if len(s.Samples) < s.sampleCap && sample != nil {
				b, err := json.Marshal(sample)
				if err == nil && len(b) < 20000 {
					s.Samples = append(s.Samples, b)
				}
			}
		}
	}
}

func (s *Stats) Label(l string) {
	s.mu.Lock()
	s.Labels[l]++
	s.mu.Unlock()
}

func (s *Stats) LabelN(l string, n int) {
	s.mu.Lock()
	s.Labels[l] += n
	s.mu.Unlock()
}

func (s *Stats) Exclude(why string) {
	s.mu.Lock()
	s.Excluded[why]++
	s.mu.Unlock()
}

func (s *Stats) KnownHit(fp string) {
	s.mu.Lock()
	s.Known[fp]++
	s.mu.Unlock()
}

func (s *Stats) SetExtra(k string, v interface{}) {
	s.mu.Lock()
	s.Extra[k] = v
	s.mu.Unlock()
}

type statsDump struct {
	Prop        string                 `json:"prop"`
	Evals       int                    `json:"evals"`
	NonTrivial  []uint64               `json:"nontrivial"`
	Distinct    int                    `json:"distinct"`
	Labels      map[string]int         `json:"labels"`
	Samples     []json.RawMessage      `json:"samples"`
	Excluded    map[string]int         `json:"excluded"`
	Known       map[string]int         `json:"known"`
	Extra       map[string]interface{} `json:"extra"`
	WallSeconds float64                `json:"wall_s"`
}

// Dump writes the stats to $VERIF_OUT/stats-<prop>-<shard>.json (no-op without VERIF_OUT).
func (s *Stats) Dump() {
	dir := os.Getenv("VERIF_OUT")
	if dir == "" {
		return
	}
	s.mu.Lock()
	defer s.mu.Unlock()
	d := statsDump{Prop: s.Prop, Evals: s.Evals, Labels: s.Labels, Samples: s.Samples, Excluded: s.Excluded, Known: s.Known, Extra: s.Extra,
		Distinct: len(s.all), WallSeconds: time.Since(s.start).Seconds()}
	for h := range s.nontrivial {
		d.NonTrivial = append(d.NonTrivial, h)
	}
	sort.Slice(d.NonTrivial, func(i, j int) bool { return d.NonTrivial[i] < d.NonTrivial[j] })
	b, _ := json.Marshal(d)
	shard := os.Getenv("VERIF_SHARD")
	if shard == "" {
		shard = "0"
	}
	_ = os.MkdirAll(dir, 0o755)
	_ = os.WriteFile(filepath.Join(dir, fmt.Sprintf("stats-%s-%s.json", s.Prop, shard)), b, 0o644)
}

// SaveFail writes the failing case for the driver (last writer wins: rapid
// re-runs the minimal case last).
func SaveFail(prop string, sc interface{}, msg string) {
	dir := os.Getenv("VERIF_OUT")
	if dir == "" {
		return
	}
	shard := os.Getenv("VERIF_SHARD")
	if shard == "" {
		shard = "0"
	}
	b, _ := json.MarshalIndent(sc, "", " ")
	_ = os.MkdirAll(dir, 0o755)
	_ = os.WriteFile(filepath.Join(dir, fmt.Sprintf("fail-%s-%s.json", prop, shard)), b, 0o644)
	_ = os.WriteFile(filepath.Join(dir, fmt.Sprintf("fail-%s-%s.txt", prop, shard)), []byte(msg), 0o644)
}

// SaveLast records the case about to be executed (child-death protocol).
func SaveLast(prop string, sc interface{}) {
	dir := os.Getenv("VERIF_OUT")
	if dir == "" || os.Getenv("VERIF_SAVELAST") == "" {
		return
	}
	shard := os.Getenv("VERIF_SHARD")
	if shard == "" {
		shard = "0"
	}
	b, _ := json.Marshal(sc)
	_ = os.WriteFile(filepath.Join(dir, fmt.Sprintf("last-%s-%s.json", prop, shard)), b, 0o644)
}

// ---------------------------------------------------------------------------
// known findings

type KnownFinding struct {
	Property    string `json:"property"`
	Status      string `json:"status"` // open | fixed
	Fingerprint string `json:"fingerprint"`
	Witness     string `json:"witness,omitempty"`
	Summary     string `json:"summary"`
	Commit      string `json:"commit,omitempty"`
}

var (
	knownOnce sync.Once
	knownOpen map[string]KnownFinding
)

func loadKnown() {
	knownOnce.Do(func() {
		knownOpen = map[string]KnownFinding{}
		path := os.Getenv("VERIF_KNOWN")
		if path == "" {
			path = "/verif/known_findings.json"
		}
		b, err := os.ReadFile(path)
		if err != nil {
			return
		}
		var doc struct {
			Findings []KnownFinding `json:"findings"`
		}
		if json.Unmarshal(b, &doc) != nil {
			return
		}
		for _, f := range doc.Findings {
			if f.Status == "open" {
				knownOpen[f.Property+"/"+f.Fingerprint] = f
			}
		}
	})
}

// IsKnownOpen reports whether (property, fingerprint) is a listed open finding.
func IsKnownOpen(prop, fingerprint string) bool {
	loadKnown()
	_, ok := knownOpen[prop+"/"+fingerprint]
	return ok
}

// Violation is what a check function returns when the property is violated.
type Violation struct {
	Fingerprint string
	Msg         string
}

func (v *Violation) Error() string { return v.Fingerprint + ": " + v.Msg }

func violf(fp string, format string, args ...interface{}) *Violation {
	return &Violation{Fingerprint: fp, Msg: fmt.Sprintf(format, args...)}
}
