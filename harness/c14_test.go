package h

import (
	"bytes"
	"encoding/binary"
	"encoding/json"
	"errors"
	"fmt"
	"math/big"
	"testing"

	avm "github.com/artela-network/artela-evm/vm"
	"github.com/ethereum/go-ethereum/common"
	"github.com/ethereum/go-ethereum/common/hexutil"
	"github.com/ethereum/go-ethereum/core/state"
	"pgregory.net/rapid"
)

// ---- C14: Artela precompiles 0x64 (context read), 0x65 (user-op sender), 0x66 (context write)

type c14Extra struct {
	Target    byte          `json:"target"`    // 0x64, 0x65, 0x66
	Kind      byte          `json:"kind"`      // CALL, CALLCODE, DELEGATECALL, STATICCALL
	Depth     int           `json:"depth"`     // 0 = entry point straight to the precompile, 1..3 = through contracts
	Delegated bool          `json:"delegated"` // the calling code runs under DELEGATECALL of a proxy
	GasArg    uint64        `json:"gasArg"`
	HostValue hexutil.Bytes `json:"hostValue"`
	HostErr   bool          `json:"hostErr"`
}

const c14Fee = 5000

// refDecodeABIBytes: argument #index of abi.encode(bytes, bytes...), overflow safe.
func refDecodeABIBytes(in []byte, index int) ([]byte, bool) {
	ln := new(big.Int).SetInt64(int64(len(in)))
	if len(in) < (index+1)*32 {
		return nil, false
	}
	off := new(big.Int).SetBytes(in[index*32 : index*32+32])
	start := new(big.Int).Add(off, big.NewInt(32))
	if start.Cmp(ln) > 0 {
		return nil, false
	}
	o := off.Uint64()
	dl := new(big.Int).SetBytes(in[o : o+32])
	end := new(big.Int).Add(start, dl)
	if end.Cmp(ln) > 0 {
		return nil, false
	}
	return in[start.Uint64():end.Uint64()], true
}

func c14Wrapper(kind byte, target byte, gasArg uint64) []byte {
	a := NewAsm()
	a.Op(CALLDATASIZE).Push(0).Push(0).Op(CALLDATACOPY)
	// out window: 0x60 bytes at 0x820 (beyond any payload), result assembled at 0x800
	a.Push(0x60).Push(0x820).Op(CALLDATASIZE).Push(0)
	if kind == CALL || kind == CALLCODE {
		a.Push(0)
	}
	a.Push(uint64(target)).Push(gasArg).Op(kind)
	a.Push(0x800).Op(MSTORE)
	a.Push(0x80).Push(0x800).Op(RETURN)
	return a.Bytes()
}

// c14Proxy forwards calldata to `to` with CALL (or DELEGATECALL) and returns its 0x80 bytes.
func c14Proxy(to common.Address, delegate bool) []byte {
	a := NewAsm()
	a.Op(CALLDATASIZE).Push(0).Push(0).Op(CALLDATACOPY)
	a.Push(0x80).Push(0x800).Op(CALLDATASIZE).Push(0)
	if !delegate {
		a.Push(0)
	}
	a.Push(to[:]).Push(30000).Op(GAS, SUB)
	if delegate {
		a.Op(DELEGATECALL)
	} else {
		a.Op(CALL)
	}
	a.Op(POP).Push(0x80).Push(0x800).Op(RETURN)
	return a.Bytes()
}

func checkC14(sc *Scenario, st *Stats) *Violation {
	var ex c14Extra
	if err := json.Unmarshal(sc.Extra, &ex); err != nil {
		return violf("harness/extra", "%v", err)
	}
	main := len(sc.Invs) - 1 // an optional earlier invocation only prepares process / instance state
	payload := []byte(sc.Invs[main].Input)
	rec := NewRecorder()
	rec.KeepMem = true
	script := NewJPScript(sc, rec)
	script.HostReply = func(hc *HostCall) ([]byte, error) {
		if ex.HostErr {
			return nil, errors.New("host says no")
		}
		switch hc.Fn {
		case "getctx":
			return []byte(ex.HostValue), nil
		case "jitsender":
			return common.BytesToAddress(ex.HostValue).Bytes(), nil
		}
		return nil, nil
	}
	hostBefore := 0
	art := RunArtela(sc, ArtelaOpts{Debug: true, Rec: rec, Script: script, BeforeInv: func(i int, _ *avm.EVM, _ *state.StateDB) {
		if i == main {
			hostBefore = len(script.HostCalls)
		}
	}})
	for i := range art.Obs {
		if art.Obs[i].Panic != "" {
			return violf("panic", "precompile %#x via %s (depth %d, delegated %v, %d byte payload): the VM panicked: %.1200s", ex.Target, opTypeName(ex.Kind), ex.Depth, ex.Delegated, len(payload), art.Obs[i].Panic)
		}
	}
	fl, err := BuildFrames(rec.Evs)
	if err != nil {
		return violf("harness/frames", "%v", err)
	}
	target := common.BytesToAddress([]byte{ex.Target})
	var F *Frame
	for _, f := range fl.Frames {
		if f.Inv == main && f.To == target && f.Kind == ex.Kind {
			F = f
		}
	}
	berlin := forkIndex(sc.Fork) >= 8
	calls := script.HostCalls[hostBefore:]
	desc := fmt.Sprintf("precompile %#x via %s (fork %s, depth %d, delegated %v, gas arg %d, %d byte payload)", ex.Target, opTypeName(ex.Kind), sc.Fork, ex.Depth, ex.Delegated, ex.GasArg, len(payload))
	if !berlin {
		if len(calls) != 0 {
			return violf("pre-berlin-host-call", "%s: host called before Berlin", desc)
		}
		st.Case(sc.JSON(), ex.Kind != CALL, sc, "pre-berlin", "target:"+fmt.Sprintf("%#x", ex.Target))
		return nil
	}
	if F == nil {
		// the call did not reach the precompile (e.g. not enough gas in a wrapper): nothing may have reached the host
		if len(calls) != 0 {
			return violf("host-call-without-frame", "%s: host called although no frame to the precompile exists", desc)
		}
		st.Exclude("call-did-not-reach-precompile")
		return nil
	}
	// the storage context of the frame that issued the call
	issuer := sc.Invs[main].Caller
	if F.IssueEv >= 0 {
		issuer = rec.Evs[F.IssueEv].Addr
	}
	given := F.Gas
	failed := F.Err != ""
	out := F.Output
	if given < c14Fee {
		if !failed || F.Err != "out of gas" {
			return violf("fee/underpaid", "%s: given %d gas (< fee) but the call ended with %q", desc, given, F.Err)
		}
		if len(calls) != 0 {
			return violf("fee/underpaid-host", "%s: host called although the fee was not paid", desc)
		}
		st.Case(sc.JSON(), true, sc, "underpaid", "target:"+fmt.Sprintf("%#x", ex.Target), "kind:"+opTypeName(ex.Kind))
		return nil
	}
	if !failed && F.GasUsed != c14Fee {
		return violf("fee/amount", "%s: successful call consumed %d gas, the fixed fee is %d", desc, F.GasUsed, c14Fee)
	}
	labels := []string{"target:" + fmt.Sprintf("%#x", ex.Target), "kind:" + opTypeName(ex.Kind), "depth:" + fmt.Sprint(ex.Depth)}
	if ex.Delegated {
		labels = append(labels, "delegated-caller")
	}
	nontrivial := ex.Kind != CALL
	switch ex.Target {
	case 0x64:
		if len(payload) < 20 {
			if len(calls) != 0 {
				return violf("0x64/short", "%s: host called with a payload shorter than an address", desc)
			}
			if !failed && len(out) != 0 {
				return violf("0x64/short", "%s: short payload returned data %x", desc, out)
			}
			labels = append(labels, "short-payload")
			break
		}
		if len(calls) != 1 || calls[0].Fn != "getctx" {
			return violf("0x64/host", "%s: expected exactly one context read, host saw %v", desc, calls)
		}
		if calls[0].Addr != common.BytesToAddress(payload[:20]) || calls[0].Key != string(payload[20:]) {
			return violf("0x64/args", "%s: host got address %x key %x, payload says %x / %x", desc, calls[0].Addr, calls[0].Key, payload[:20], payload[20:])
		}
		if ex.HostErr {
			if !failed {
				return violf("0x64/host-error", "%s: host failed but the call succeeded", desc)
			}
		} else {
			if failed {
				return violf("0x64/failed", "%s: call failed: %s", desc, F.Err)
			}
			if !bytes.Equal(out, ex.HostValue) {
				return violf("0x64/return", "%s: returned %x, host returned %x", desc, out, []byte(ex.HostValue))
			}
		}
	case 0x65:
		if len(payload) == 0 {
			if len(calls) != 0 || (!failed && len(out) != 0) {
				return violf("0x65/empty", "%s: empty payload reached the host or returned data", desc)
			}
			labels = append(labels, "short-payload")
			break
		}
		if len(calls) != 1 || calls[0].Fn != "jitsender" {
			return violf("0x65/host", "%s: expected exactly one sender query, host saw %v", desc, calls)
		}
		if calls[0].Hash != common.BytesToHash(payload) {
			return violf("0x65/args", "%s: host got hash %x, payload is %x", desc, calls[0].Hash, payload)
		}
		if ex.HostErr {
			if !failed {
				return violf("0x65/host-error", "%s: host failed but the call succeeded", desc)
			}
		} else {
			want := common.BytesToAddress(ex.HostValue).Hash().Bytes()
			if failed || !bytes.Equal(out, want) {
				return violf("0x65/return", "%s: returned %x (err %q), host returned address %x", desc, out, F.Err, want[12:])
			}
		}
	case 0x66:
		if len(payload) < 128 {
			if len(calls) != 0 || (!failed && len(out) != 0) {
				return violf("0x66/short", "%s: payload below the minimum reached the host or returned data", desc)
			}
			labels = append(labels, "short-payload")
			break
		}
		key, ok1 := refDecodeABIBytes(payload, 0)
		val, ok2 := refDecodeABIBytes(payload, 1)
		if !ok1 || !ok2 {
			labels = append(labels, "undecodable")
			nontrivial = true
			if !failed {
				return violf("0x66/invalid-accepted", "%s: the payload does not decode as (bytes,bytes) but the call succeeded", desc)
			}
			if len(calls) != 0 {
				return violf("0x66/invalid-host", "%s: undecodable payload reached the host: %v", desc, calls)
			}
			break
		}
		labels = append(labels, "decodable")
		if len(calls) == 0 {
			// refused: acceptable only as an error
			if !failed {
				return violf("0x66/lost-write", "%s: decodable payload, call succeeded, but the host never saw the write", desc)
			}
			labels = append(labels, "write-refused")
			break
		}
		if len(calls) != 1 || calls[0].Fn != "setctx" {
			return violf("0x66/host", "%s: expected one context write, host saw %v", desc, calls)
		}
		if calls[0].Key != string(key) || !bytes.Equal(calls[0].Value, val) {
			return violf("0x66/args", "%s: host got key %x value %x, payload encodes %x / %x", desc, calls[0].Key, calls[0].Value, key, val)
		}
		if calls[0].Addr != issuer {
			return violf("0x66/attribution", "%s: the write was recorded under %x, the contract whose call reached the precompile is %x", desc, calls[0].Addr, issuer)
		}
		if ex.HostErr != failed {
			return violf("0x66/result", "%s: host error %v but call failed=%v (%s)", desc, ex.HostErr, failed, F.Err)
		}
	}
	if len(payload) >= 128 {
		nontrivial = true
	}
	st.Case(sc.JSON(), nontrivial, sc, labels...)
	return nil
}

var c14HeadWords = []string{"0", "31", "32", "33", "63", "64", "96", "128", "2147483648", "9223372036854775808", "18446744073709551584",
	"18446744073709551615", "18446744073709551616", "115792089237316195423570985008687907853269984665640564039457584007913129639935"}

func word32(v *big.Int) []byte { return common.LeftPadBytes(v.Bytes(), 32) }

func genABIPayload(t *rapid.T) []byte {
	key := rapid.SliceOfN(rapid.Byte(), 0, 70).Draw(t, "key")
	val := rapid.SliceOfN(rapid.Byte(), 0, 200).Draw(t, "val")
	pad := func(b []byte) []byte { return append(append([]byte{}, b...), make([]byte, (32-len(b)%32)%32)...) }
	kp, vp := pad(key), pad(val)
	gap := 0
	if chance(t, 20, "gap") {
		gap = 32 * rapid.IntRange(1, 2).Draw(t, "gapn") // non-canonical but valid offsets
	}
	off0 := 64 + gap
	off1 := off0 + 32 + len(kp)
	p := append([]byte{}, word32(big.NewInt(int64(off0)))...)
	p = append(p, word32(big.NewInt(int64(off1)))...)
	p = append(p, make([]byte, gap)...)
	p = append(p, word32(big.NewInt(int64(len(key))))...)
	p = append(p, kp...)
	p = append(p, word32(big.NewInt(int64(len(val))))...)
	p = append(p, vp...)
	// mutations
	switch uniform(t, 0, 9, "mut") {
	case 0, 1, 2, 3:
	case 4:
		p = p[:rapid.IntRange(0, len(p)).Draw(t, "trunc")]
	case 5, 6:
		// head word replaced
		i := uniform(t, 0, 1, "headi")
		v := pickBig(t, "headv", c14HeadWords...)
		if chance(t, 40, "headrel") {
			v = big.NewInt(int64(len(p) - []int{32, 31, 0, 33, 64, 1, 16, 30}[uniform(t, 0, 7, "headrelk")]))
			if v.Sign() < 0 {
				v = big.NewInt(0)
			}
		}
		copy(p[i*32:], word32(v))
	case 7, 8:
		// a length word replaced
		pos := off0
		if rapid.Bool().Draw(t, "lenwhich") {
			pos = off1
		}
		v := pickBig(t, "lenv", c14HeadWords...)
		if chance(t, 40, "lenrel") {
			v = big.NewInt(int64(len(p) - pos - []int{32, 31, 33, 0, 1, 16}[uniform(t, 0, 5, "lenrelk")]))
			if v.Sign() < 0 {
				v = big.NewInt(1)
			}
		}
		if pos+32 <= len(p) {
			copy(p[pos:], word32(v))
		}
	default:
		p = append(p, rapid.SliceOfN(rapid.Byte(), 1, 40).Draw(t, "garbage")...)
	}
	return p
}

// buildC14 deterministically builds the scenario for a payload and a configuration.
func buildC14(ex c14Extra, fork string, payload []byte, jp bool) *Scenario {
	sc := &Scenario{Fork: fork}
	target := common.BytesToAddress([]byte{ex.Target})
	sc.Accounts = []Account{{Addr: EOAAddr, Balance: hexU64(1 << 40), Nonce: 1}}
	inv := Invocation{Origin: EOAAddr, Caller: EOAAddr, Input: payload, Gas: 2_000_000, JP: jp}
	if ex.Depth == 0 {
		inv.Kind = map[byte]string{CALL: "call", CALLCODE: "callcode", DELEGATECALL: "delegatecall", STATICCALL: "staticcall"}[ex.Kind]
		inv.To = target
		inv.Gas = ex.GasArg
		if ex.GasArg == 100000 {
			inv.Gas = 2_000_000
		}
		if inv.Kind == "callcode" || inv.Kind == "delegatecall" {
			inv.Caller = ContractAddrs[0]
			sc.Accounts = append(sc.Accounts, Account{Addr: ContractAddrs[0], Nonce: 1, Code: []byte{STOP}})
		}
	} else {
		// W issues the call; optionally W's code runs under DELEGATECALL of a proxy
		W := ContractAddrs[0]
		sc.Accounts = append(sc.Accounts, Account{Addr: W, Nonce: 1, Code: c14Wrapper(ex.Kind, ex.Target, ex.GasArg)})
		entry := W
		next := 1
		if ex.Delegated {
			P := ContractAddrs[next]
			next++
			sc.Accounts = append(sc.Accounts, Account{Addr: P, Nonce: 1, Code: c14Proxy(entry, true)})
			entry = P
		}
		for d := 1; d < ex.Depth; d++ {
			P := ContractAddrs[next]
			next++
			sc.Accounts = append(sc.Accounts, Account{Addr: P, Nonce: 1, Code: c14Proxy(entry, false)})
			entry = P
		}
		inv.Kind = "call"
		inv.To = entry
	}
	// Every case starts with an unrelated context write by ANOTHER address through a
	// plain CALL: whatever that leaves behind (in the precompile instance, in the
	// process) must not influence the call under test. It is not drawn, so that
	// shrinking cannot remove it and every case is self-contained on replay.
	w := Invocation{Kind: "call", Origin: EOAAddr, Caller: EOA2Addr, To: common.BytesToAddress([]byte{0x66}), Gas: 100000, JP: false,
		Input: append(append(append(word32(big.NewInt(64)), word32(big.NewInt(96))...), word32(big.NewInt(0))...), word32(big.NewInt(0))...)}
	sc.Invs = []Invocation{w, inv}
	sc.Extra, _ = json.Marshal(ex)
	return sc
}

var c14Forks = []string{"Berlin", "London", "Shanghai", "Cancun", "Berlin", "London", "Istanbul", "Byzantium", "Petersburg"}

func genC14(t *rapid.T) *Scenario {
	ex := c14Extra{Target: byte(0x64 + uniform(t, 0, 2, "target"))}
	ex.Kind = []byte{CALL, CALL, CALLCODE, DELEGATECALL, STATICCALL}[uniform(t, 0, 4, "kind")]
	ex.Depth = uniform(t, 0, 3, "depth")
	ex.GasArg = pickU64(t, "gasarg", 100000, 100000, 5000, 5001, 4999, 0)
	ex.HostValue = rapid.SliceOfN(rapid.Byte(), 0, 64).Draw(t, "hostvalue")
	ex.HostErr = chance(t, 15, "hosterr")
	fork := c14Forks[uniform(t, 0, len(c14Forks)-1, "fork")]
	var payload []byte
	switch ex.Target {
	case 0x64:
		n := []int{0, 1, 19, 20, 21, 52, 100}[uniform(t, 0, 6, "n64")]
		payload = rapid.SliceOfN(rapid.Byte(), n, n).Draw(t, "p64")
	case 0x65:
		n := []int{0, 1, 31, 32, 33, 64, 80}[uniform(t, 0, 6, "n65")]
		payload = rapid.SliceOfN(rapid.Byte(), n, n).Draw(t, "p65")
	default:
		payload = genABIPayload(t)
	}
	if ex.Depth > 0 {
		ex.Delegated = chance(t, 35, "delegated")
		if forkIndex(fork) < 4 && ex.Kind == STATICCALL {
			ex.Kind = CALL
		}
	}
	return buildC14(ex, fork, payload, rapid.Bool().Draw(t, "jp"))
}

func TestC14(t *testing.T)       { runProp(t, "C14", genC14, checkC14) }
func TestC14Replay(t *testing.T) { replayProp(t, "C14", checkC14) }

var _ = binary.BigEndian
