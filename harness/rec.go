package h

import (
	"encoding/hex"
	"fmt"
	"hash/fnv"
	"math/big"
	"strings"

	avm "github.com/artela-network/artela-evm/vm"
	atypes "github.com/artela-network/aspect-core/types"
	"github.com/ethereum/go-ethereum/common"
	uvm "github.com/ethereum/go-ethereum/core/vm"
	"github.com/holiman/uint256"
	"google.golang.org/protobuf/proto"
)

type EvKind uint8

const (
	EvTxStart EvKind = iota
	EvTxEnd
	EvStart
	EvEnd
	EvEnter
	EvExit
	EvStep
	EvFault
	EvLookup
	EvAspectEnter
	EvAspectExit
	EvTransfer
	EvCanTransfer
	EvInvBegin // harness marker: top-level invocation begins
	EvInvEnd   // harness marker: top-level invocation returned
)

var evNames = []string{"txstart", "txend", "start", "end", "enter", "exit", "step", "fault", "lookup", "aenter", "aexit", "xfer", "canxfer", "invbegin", "invend"}

func (k EvKind) String() string { return evNames[k] }

// Ev is the single event type both recorders (Artela, upstream) feed.
type Ev struct {
	K       EvKind
	Depth   int
	PC      uint64
	Op      byte
	Gas     uint64
	Cost    uint64
	Stack   []uint256.Int // bottom -> top
	MemLen  int
	MemHash uint64
	Mem     []byte // copy, only when the recorder keeps memory
	RData   []byte
	Err     string
	ErrIs   error // original error value (identity checks on the Artela side)

	Typ     byte // call kind opcode for enter
	Create  bool
	From    common.Address
	To      common.Address
	Input   []byte
	Value   *big.Int
	Output  []byte
	GasUsed uint64

	Addr     common.Address // scope.Contract.Address() at a step
	CodeAddr common.Address

	// lookup / aspect
	PointCut string
	Aspect   common.Address
	Req      proto.Message
	JP       int64

	// transfer
	BalFromBefore, BalToBefore, BalFromAfter, BalToAfter *big.Int
	Digest                                               string // state digest taken by the wrapper
	CodeLen                                              int    // length of the recipient's code at a transfer
	Seq                                                  int
}

func bstr(b *big.Int) string {
	if b == nil {
		return "nil"
	}
	return b.String()
}

// Key renders the debug-tracer relevant arguments of an event canonically; used
// for the stream comparison with the reference implementation.
func (e *Ev) Key() string {
	var sb strings.Builder
	switch e.K {
	case EvTxStart, EvTxEnd:
		fmt.Fprintf(&sb, "%s gas=%d", e.K, e.Gas)
	case EvStart:
		fmt.Fprintf(&sb, "start from=%x to=%x create=%v in=%x gas=%d val=%s", e.From, e.To, e.Create, e.Input, e.Gas, bstr(e.Value))
	case EvEnter:
		fmt.Fprintf(&sb, "enter typ=%02x from=%x to=%x in=%x gas=%d val=%s", e.Typ, e.From, e.To, e.Input, e.Gas, bstr(e.Value))
	case EvEnd, EvExit:
		fmt.Fprintf(&sb, "%s out=%x used=%d err=%s", e.K, e.Output, e.GasUsed, normErr(e.Err))
	case EvStep, EvFault:
		fmt.Fprintf(&sb, "%s d=%d pc=%d op=%02x gas=%d cost=%d err=%s mem=%d/%x rd=%x addr=%x st=", e.K, e.Depth, e.PC, e.Op, e.Gas, e.Cost, normErr(e.Err), e.MemLen, e.MemHash, e.RData, e.Addr)
		for i := range e.Stack {
			sb.WriteString(e.Stack[i].Hex())
			sb.WriteByte(',')
		}
	default:
		fmt.Fprintf(&sb, "%s", e.K)
	}
	return sb.String()
}

// GasKey renders the gas relevant part of an event (C02).
func (e *Ev) GasKey() string {
	switch e.K {
	case EvStep, EvFault:
		return fmt.Sprintf("%s d=%d pc=%d op=%02x gas=%d cost=%d", e.K, e.Depth, e.PC, e.Op, e.Gas, e.Cost)
	case EvStart, EvEnter:
		return fmt.Sprintf("%s gas=%d", e.K, e.Gas)
	case EvEnd, EvExit:
		return fmt.Sprintf("%s used=%d", e.K, e.GasUsed)
	}
	return e.K.String()
}

// normErr removes the only implementation specific part of error texts: the
// *name* printed for an undefined opcode (Artela names bytes that upstream
// prints as "opcode 0x.. not defined").
func normErr(s string) string {
	if strings.HasPrefix(s, "invalid opcode:") {
		return "invalid opcode"
	}
	return s
}

func errText(err error) string {
	if err == nil {
		return ""
	}
	return err.Error()
}

// Recorder collects events. It is fed by the adapters below.
type Recorder struct {
	Evs       []Ev
	KeepStack bool
	KeepMem   bool // keep memory copies (bounded by MemCap)
	MemCap    int
	Steps     int
	MaxSteps  int // 0 = unlimited; otherwise StepHook may cancel
	// StepHook, if set, is called after a step event has been appended.
	StepHook func(r *Recorder, e *Ev)
	// OpCount counts executed opcodes.
	OpCount [256]int
	seq     int
	// Hook, if set, sees every event right after it was appended.
	Hook func(e *Ev)
}

func NewRecorder() *Recorder { return &Recorder{KeepStack: true, MemCap: 1 << 16} }

func (r *Recorder) add(e Ev) *Ev {
	e.Seq = r.seq
	r.seq++
	r.Evs = append(r.Evs, e)
	p := &r.Evs[len(r.Evs)-1]
	if r.Hook != nil {
		r.Hook(p)
	}
	return p
}

func memHash(b []byte) uint64 {
	h := fnv.New64a()
	h.Write(b)
	return h.Sum64()
}

func (r *Recorder) step(k EvKind, pc uint64, op byte, gas, cost uint64, stack []uint256.Int, mem []byte, rdata []byte, depth int, err error, addr, codeAddr common.Address) {
	e := Ev{K: k, PC: pc, Op: op, Gas: gas, Cost: cost, Depth: depth, Err: errText(err), ErrIs: err, Addr: addr, CodeAddr: codeAddr}
	if r.KeepStack {
		e.Stack = append([]uint256.Int(nil), stack...)
	}
	e.MemLen = len(mem)
	e.MemHash = memHash(mem)
	if r.KeepMem && len(mem) <= r.MemCap {
		e.Mem = append([]byte(nil), mem...)
	}
	e.RData = append([]byte(nil), rdata...)
	if k == EvStep {
		r.Steps++
		r.OpCount[op]++
	}
	p := r.add(e)
	if r.StepHook != nil && k == EvStep {
		r.StepHook(r, p)
	}
}

func cpBig(b *big.Int) *big.Int {
	if b == nil {
		return nil
	}
	return new(big.Int).Set(b)
}

func cpBytes(b []byte) []byte {
	if b == nil {
		return nil
	}
	return append([]byte{}, b...)
}

// ---- Artela adapter -------------------------------------------------------

type ArtelaLogger struct {
	R *Recorder
	// Inner, if set, receives every callback as well (used to drive real tracers).
	Inner avm.EVMLogger
}

var _ avm.EVMLogger = (*ArtelaLogger)(nil)
var _ atypes.AspectLogger = (*ArtelaLogger)(nil)

func (l *ArtelaLogger) CaptureTxStart(gasLimit uint64) {
	l.R.add(Ev{K: EvTxStart, Gas: gasLimit})
	if l.Inner != nil {
		l.Inner.CaptureTxStart(gasLimit)
	}
}
func (l *ArtelaLogger) CaptureTxEnd(restGas uint64) {
	l.R.add(Ev{K: EvTxEnd, Gas: restGas})
	if l.Inner != nil {
		l.Inner.CaptureTxEnd(restGas)
	}
}
func (l *ArtelaLogger) CaptureStart(env *avm.EVM, from common.Address, to common.Address, create bool, input []byte, gas uint64, value *big.Int) {
	l.R.add(Ev{K: EvStart, From: from, To: to, Create: create, Input: cpBytes(input), Gas: gas, Value: cpBig(value)})
	if l.Inner != nil {
		l.Inner.CaptureStart(env, from, to, create, input, gas, value)
	}
}
func (l *ArtelaLogger) CaptureEnd(output []byte, gasUsed uint64, err error) {
	l.R.add(Ev{K: EvEnd, Output: cpBytes(output), GasUsed: gasUsed, Err: errText(err), ErrIs: err})
	if l.Inner != nil {
		l.Inner.CaptureEnd(output, gasUsed, err)
	}
}
func (l *ArtelaLogger) CaptureEnter(typ avm.OpCode, from common.Address, to common.Address, input []byte, gas uint64, value *big.Int) {
	l.R.add(Ev{K: EvEnter, Typ: byte(typ), From: from, To: to, Input: cpBytes(input), Gas: gas, Value: cpBig(value)})
	if l.Inner != nil {
		l.Inner.CaptureEnter(typ, from, to, input, gas, value)
	}
}
func (l *ArtelaLogger) CaptureExit(output []byte, gasUsed uint64, err error) {
	l.R.add(Ev{K: EvExit, Output: cpBytes(output), GasUsed: gasUsed, Err: errText(err), ErrIs: err})
	if l.Inner != nil {
		l.Inner.CaptureExit(output, gasUsed, err)
	}
}
func (l *ArtelaLogger) CaptureState(pc uint64, op avm.OpCode, gas, cost uint64, scope *avm.ScopeContext, rData []byte, depth int, err error) {
	var ca common.Address
	if scope.Contract.CodeAddr != nil {
		ca = *scope.Contract.CodeAddr
	}
	l.R.step(EvStep, pc, byte(op), gas, cost, scope.Stack.Data(), scope.Memory.Data(), rData, depth, err, scope.Contract.Address(), ca)
	if l.Inner != nil {
		l.Inner.CaptureState(pc, op, gas, cost, scope, rData, depth, err)
	}
}
func (l *ArtelaLogger) CaptureFault(pc uint64, op avm.OpCode, gas, cost uint64, scope *avm.ScopeContext, depth int, err error) {
	var ca common.Address
	if scope.Contract.CodeAddr != nil {
		ca = *scope.Contract.CodeAddr
	}
	l.R.step(EvFault, pc, byte(op), gas, cost, scope.Stack.Data(), scope.Memory.Data(), nil, depth, err, scope.Contract.Address(), ca)
	if l.Inner != nil {
		l.Inner.CaptureFault(pc, op, gas, cost, scope, depth, err)
	}
}
func (l *ArtelaLogger) CaptureAspectEnter(joinpoint atypes.JoinPointRunType, from, to, aspectId common.Address, input []byte, gas uint64, value *big.Int, execCtx proto.Message) {
	l.R.add(Ev{K: EvAspectEnter, JP: int64(joinpoint), From: from, To: to, Aspect: aspectId, Input: cpBytes(input), Gas: gas, Value: cpBig(value), Req: proto.Clone(execCtx)})
	if al, ok := l.Inner.(atypes.AspectLogger); ok {
		al.CaptureAspectEnter(joinpoint, from, to, aspectId, input, gas, value, execCtx)
	}
}
func (l *ArtelaLogger) CaptureAspectExit(joinpoint atypes.JoinPointRunType, result *atypes.AspectExecutionResult) {
	l.R.add(Ev{K: EvAspectExit, JP: int64(joinpoint), Gas: result.Gas, Output: cpBytes(result.Ret), Err: errText(result.Err), ErrIs: result.Err})
	if al, ok := l.Inner.(atypes.AspectLogger); ok {
		al.CaptureAspectExit(joinpoint, result)
	}
}

// ---- upstream adapter -----------------------------------------------------

type UpLogger struct {
	R     *Recorder
	Inner uvm.EVMLogger
}

var _ uvm.EVMLogger = (*UpLogger)(nil)

func (l *UpLogger) CaptureTxStart(gasLimit uint64) {
	l.R.add(Ev{K: EvTxStart, Gas: gasLimit})
	if l.Inner != nil {
		l.Inner.CaptureTxStart(gasLimit)
	}
}
func (l *UpLogger) CaptureTxEnd(restGas uint64) {
	l.R.add(Ev{K: EvTxEnd, Gas: restGas})
	if l.Inner != nil {
		l.Inner.CaptureTxEnd(restGas)
	}
}
func (l *UpLogger) CaptureStart(env *uvm.EVM, from common.Address, to common.Address, create bool, input []byte, gas uint64, value *big.Int) {
	l.R.add(Ev{K: EvStart, From: from, To: to, Create: create, Input: cpBytes(input), Gas: gas, Value: cpBig(value)})
	if l.Inner != nil {
		l.Inner.CaptureStart(env, from, to, create, input, gas, value)
	}
}
func (l *UpLogger) CaptureEnd(output []byte, gasUsed uint64, err error) {
	l.R.add(Ev{K: EvEnd, Output: cpBytes(output), GasUsed: gasUsed, Err: errText(err), ErrIs: err})
	if l.Inner != nil {
		l.Inner.CaptureEnd(output, gasUsed, err)
	}
}
func (l *UpLogger) CaptureEnter(typ uvm.OpCode, from common.Address, to common.Address, input []byte, gas uint64, value *big.Int) {
	l.R.add(Ev{K: EvEnter, Typ: byte(typ), From: from, To: to, Input: cpBytes(input), Gas: gas, Value: cpBig(value)})
	if l.Inner != nil {
		l.Inner.CaptureEnter(typ, from, to, input, gas, value)
	}
}
func (l *UpLogger) CaptureExit(output []byte, gasUsed uint64, err error) {
	l.R.add(Ev{K: EvExit, Output: cpBytes(output), GasUsed: gasUsed, Err: errText(err), ErrIs: err})
	if l.Inner != nil {
		l.Inner.CaptureExit(output, gasUsed, err)
	}
}
func (l *UpLogger) CaptureState(pc uint64, op uvm.OpCode, gas, cost uint64, scope *uvm.ScopeContext, rData []byte, depth int, err error) {
	var ca common.Address
	if scope.Contract.CodeAddr != nil {
		ca = *scope.Contract.CodeAddr
	}
	l.R.step(EvStep, pc, byte(op), gas, cost, scope.Stack.Data(), scope.Memory.Data(), rData, depth, err, scope.Contract.Address(), ca)
	if l.Inner != nil {
		l.Inner.CaptureState(pc, op, gas, cost, scope, rData, depth, err)
	}
}
func (l *UpLogger) CaptureFault(pc uint64, op uvm.OpCode, gas, cost uint64, scope *uvm.ScopeContext, depth int, err error) {
	var ca common.Address
	if scope.Contract.CodeAddr != nil {
		ca = *scope.Contract.CodeAddr
	}
	l.R.step(EvFault, pc, byte(op), gas, cost, scope.Stack.Data(), scope.Memory.Data(), nil, depth, err, scope.Contract.Address(), ca)
	if l.Inner != nil {
		l.Inner.CaptureFault(pc, op, gas, cost, scope, depth, err)
	}
}

func hx(b []byte) string { return hex.EncodeToString(b) }
