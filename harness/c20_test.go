package h

import (
	"encoding/json"
	"fmt"
	"math/big"
	"os"
	"runtime"
	"strings"
	"sync"
	"testing"

	avm "github.com/artela-network/artela-evm/vm"
	"github.com/ethereum/go-ethereum/common"
	"github.com/ethereum/go-ethereum/core/state"
	uvm "github.com/ethereum/go-ethereum/core/vm"
	"github.com/holiman/uint256"
	"pgregory.net/rapid"
)

// ---- C20: work done per instruction is bounded by the gas it pays -------------------

const c20ReadCap = 200000

// countState counts every state read; it satisfies both vm.StateDB interfaces.
type countState struct {
	*state.StateDB
	n       uint64
	stepN   uint64 // reads at the last step (for the cap)
	tripped bool
}

type c20Abort struct{ reads uint64 }

func (c20Abort) String() string { return "c20Abort: read cap reached" }

func (c *countState) hit() {
	c.n++
	if c.n-c.stepN > c20ReadCap {
		c.tripped = true
		panic(c20Abort{c.n - c.stepN})
	}
}
func (c *countState) GetState(a common.Address, k common.Hash) common.Hash {
	c.hit()
	return c.StateDB.GetState(a, k)
}
func (c *countState) GetCommittedState(a common.Address, k common.Hash) common.Hash {
	c.hit()
	return c.StateDB.GetCommittedState(a, k)
}
func (c *countState) GetBalance(a common.Address) *big.Int { c.hit(); return c.StateDB.GetBalance(a) }
func (c *countState) GetNonce(a common.Address) uint64     { c.hit(); return c.StateDB.GetNonce(a) }
func (c *countState) GetCode(a common.Address) []byte      { c.hit(); return c.StateDB.GetCode(a) }
func (c *countState) GetCodeSize(a common.Address) int     { c.hit(); return c.StateDB.GetCodeSize(a) }
func (c *countState) GetCodeHash(a common.Address) common.Hash {
	c.hit()
	return c.StateDB.GetCodeHash(a)
}
func (c *countState) Exist(a common.Address) bool { c.hit(); return c.StateDB.Exist(a) }
func (c *countState) Empty(a common.Address) bool { c.hit(); return c.StateDB.Empty(a) }

type meterRow struct {
	Depth int
	PC    uint64
	Op    byte
	Gas   uint64
	Cost  uint64
	Reads uint64 // cumulative
	Alloc uint64 // cumulative TotalAlloc
	Err   bool
}

// meter is the debug tracer used for work measurements: it keeps cumulative
// counters per step in a preallocated slice (no allocation of its own per step).
type meter struct {
	rows []meterRow
	cs   *countState
	ms   runtime.MemStats
	// keep, if set, restricts the rows to the top-depth instructions it selects
	// plus the step following each of them (long loops: measuring costs a
	// stop-the-world per row)
	keep     func(op byte) bool
	lastKept bool
}

func newMeter() *meter { return &meter{rows: make([]meterRow, 0, 4096)} }

func (m *meter) step(pc uint64, op byte, gas, cost uint64, depth int, err error) {
	if m.keep != nil {
		k := depth == 1 && m.keep(op)
		if !k && !m.lastKept {
			if m.cs != nil {
				m.cs.stepN = m.cs.n
			}
			return
		}
		m.lastKept = k
	}
	runtime.ReadMemStats(&m.ms)
	var reads uint64
	if m.cs != nil {
		reads = m.cs.n
		m.cs.stepN = m.cs.n
	}
	if len(m.rows) < cap(m.rows) {
		m.rows = append(m.rows, meterRow{Depth: depth, PC: pc, Op: op, Gas: gas, Cost: cost, Reads: reads, Alloc: m.ms.TotalAlloc, Err: err != nil})
	}
}

type meterA struct{ m *meter }

func (meterA) CaptureTxStart(uint64) {}
func (meterA) CaptureTxEnd(uint64)   {}
func (meterA) CaptureStart(*avm.EVM, common.Address, common.Address, bool, []byte, uint64, *big.Int) {
}
func (meterA) CaptureEnd([]byte, uint64, error) {}
func (meterA) CaptureEnter(avm.OpCode, common.Address, common.Address, []byte, uint64, *big.Int) {
}
func (meterA) CaptureExit([]byte, uint64, error) {}
func (t meterA) CaptureState(pc uint64, op avm.OpCode, gas, cost uint64, _ *avm.ScopeContext, _ []byte, depth int, err error) {
	t.m.step(pc, byte(op), gas, cost, depth, err)
}
func (t meterA) CaptureFault(pc uint64, op avm.OpCode, gas, cost uint64, _ *avm.ScopeContext, depth int, err error) {
	t.m.step(pc, byte(op), gas, cost, depth, err)
}

type meterU struct{ m *meter }

func (meterU) CaptureTxStart(uint64) {}
func (meterU) CaptureTxEnd(uint64)   {}
func (meterU) CaptureStart(*uvm.EVM, common.Address, common.Address, bool, []byte, uint64, *big.Int) {
}
func (meterU) CaptureEnd([]byte, uint64, error) {}
func (meterU) CaptureEnter(uvm.OpCode, common.Address, common.Address, []byte, uint64, *big.Int) {
}
func (meterU) CaptureExit([]byte, uint64, error) {}
func (t meterU) CaptureState(pc uint64, op uvm.OpCode, gas, cost uint64, _ *uvm.ScopeContext, _ []byte, depth int, err error) {
	t.m.step(pc, byte(op), gas, cost, depth, err)
}
func (t meterU) CaptureFault(pc uint64, op uvm.OpCode, gas, cost uint64, _ *uvm.ScopeContext, depth int, err error) {
	t.m.step(pc, byte(op), gas, cost, depth, err)
}

// work attributes to every top-depth instruction the reads / allocated bytes /
// gas consumed until the next top-depth step.
type workRow struct {
	Op       byte
	PC       uint64
	Consumed uint64
	Reads    uint64
	Alloc    uint64
}

func (m *meter) work() []workRow {
	var out []workRow
	for i := 0; i < len(m.rows); i++ {
		r := m.rows[i]
		if r.Depth != 1 || r.Err {
			continue
		}
		for j := i + 1; j < len(m.rows); j++ {
			n := m.rows[j]
			if n.Depth == 1 {
				if n.Err && n.PC == r.PC && n.Op == r.Op {
					// the fault record of this very instruction: it was charged (memory expansion
					// included), did its work and then failed. What it was charged is the least an
					// attacker pays for that work (the failure forfeits the rest of the frame's gas too)
					out = append(out, workRow{Op: r.Op, PC: r.PC, Consumed: r.Cost, Reads: n.Reads - r.Reads, Alloc: n.Alloc - r.Alloc})
				} else if n.Gas <= r.Gas {
					out = append(out, workRow{Op: r.Op, PC: r.PC, Consumed: r.Gas - n.Gas, Reads: n.Reads - r.Reads, Alloc: n.Alloc - r.Alloc})
				}
				break
			}
		}
	}
	return out
}

// ---- calibration on the UPSTREAM interpreter (the protocol's own pricing is the yardstick) ----

type c20Bounds struct {
	ReadsPerGas float64 `json:"reads_per_gas"`
	ReadsConst  float64 `json:"reads_const"`
	BytesPerGas float64 `json:"bytes_per_gas"`
	BytesConst  float64 `json:"bytes_const"`
	Probes      int     `json:"probes"`
	WorstReads  string  `json:"worst_reads_op"`
	WorstBytes  string  `json:"worst_bytes_op"`
}

var (
	c20Once sync.Once
	c20B    c20Bounds
)

// c20Probe builds a one-contract scenario: setup code, the instruction under
// test, then marker instructions (so that a next step exists).
func c20Probe(fork string, build func(a *Asm), storage map[common.Hash]common.Hash, calldata []byte) *Scenario {
	a := NewAsm()
	build(a)
	a.Op(JUMPDEST, JUMPDEST, STOP)
	sc := &Scenario{Fork: fork}
	big1 := common.BigToHash(big.NewInt(1))
	if storage == nil {
		storage = map[common.Hash]common.Hash{big1: big1}
	}
	sc.Accounts = []Account{{Addr: ContractAddrs[0], Nonce: 1, Code: a.Bytes(), Storage: storage, Balance: hexU64(1000)},
		{Addr: ContractAddrs[1], Nonce: 1, Code: make([]byte, 20000)}, {Addr: EOAAddr, Balance: hexU64(1 << 40), Nonce: 1}}
	sc.Invs = []Invocation{{Kind: "call", Origin: EOAAddr, Caller: EOAAddr, To: ContractAddrs[0], Gas: 25_000_000, Input: calldata, JP: true}}
	return sc
}

func calibrationProbes() []*Scenario {
	var out []*Scenario
	other := ContractAddrs[1]
	for _, fork := range []string{"Frontier", "Shanghai"} {
		for _, S := range []int{0, 32, 1024, 32768, 262144} {
			s := S
			out = append(out,
				c20Probe(fork, func(a *Asm) { a.Push(1).Push(s).Op(MSTORE) }, nil, nil),
				c20Probe(fork, func(a *Asm) { a.Push(s).Push(0).Push(0).Op(CALLDATACOPY) }, nil, make([]byte, 100)),
				c20Probe(fork, func(a *Asm) { a.Push(s).Push(0).Push(0).Op(CODECOPY) }, nil, nil),
				c20Probe(fork, func(a *Asm) { a.Push(s).Push(0).Push(0).Push(other[:]).Op(EXTCODECOPY) }, nil, nil),
				c20Probe(fork, func(a *Asm) { a.Push(s).Push(0).Op(KECCAK256, POP) }, nil, nil),
				c20Probe(fork, func(a *Asm) { a.Push(s).Push(0).Op(LOG0) }, nil, nil),
				c20Probe(fork, func(a *Asm) {
					a.Push(s).Push(0).Push(s).Push(0).Push(0).Push(4).Push(20_000_000).Op(CALL, POP)
				}, nil, nil),
				c20Probe(fork, func(a *Asm) {
					a.Push(32).Push(0).Push(s).Push(0).Push(0).Push(2).Push(20_000_000).Op(CALL, POP)
				}, nil, nil),
			)
		}
		out = append(out,
			c20Probe(fork, func(a *Asm) { a.Push(1).Op(SLOAD, POP) }, nil, nil),
			c20Probe(fork, func(a *Asm) { a.Push(5).Push(1).Op(SSTORE) }, nil, nil),
			c20Probe(fork, func(a *Asm) { a.Push(other[:]).Op(BALANCE, POP) }, nil, nil),
			c20Probe(fork, func(a *Asm) { a.Push(other[:]).Op(EXTCODESIZE, POP) }, nil, nil),
			c20Probe(fork, func(a *Asm) { a.Push(7).Push(9).Op(ADD, POP) }, nil, nil),
			c20Probe(fork, func(a *Asm) { a.Push(999).Op(BLOCKHASH, POP) }, nil, nil),
		)
	}
	return out
}

func c20Calibrate() c20Bounds {
	c20Once.Do(func() {
		var worstR, worstB float64
		var constR, constB float64
		n := 0
		for _, sc := range calibrationProbes() {
			m := newMeter()
			RunUpstream(sc, UpOpts{CustomTracer: meterU{m}, WrapState: func(s uvm.StateDB) uvm.StateDB {
				m.cs = &countState{StateDB: s.(*state.StateDB)}
				return m.cs
			}})
			for _, w := range m.work() {
				n++
				if w.Consumed <= 3 {
					if float64(w.Reads) > constR {
						constR = float64(w.Reads)
					}
					if float64(w.Alloc) > constB {
						constB = float64(w.Alloc)
					}
					continue
				}
				if r := float64(w.Reads) / float64(w.Consumed); r > worstR {
					worstR = r
					c20B.WorstReads = fmt.Sprintf("op %02x: %d reads for %d gas", w.Op, w.Reads, w.Consumed)
				}
				if r := float64(w.Alloc) / float64(w.Consumed); r > worstB {
					worstB = r
					c20B.WorstBytes = fmt.Sprintf("op %02x: %d bytes for %d gas", w.Op, w.Alloc, w.Consumed)
				}
			}
		}
		c20B.ReadsPerGas = 4 * worstR
		c20B.BytesPerGas = 4 * worstB
		c20B.ReadsConst = 4*constR + 8
		c20B.BytesConst = 4*constB + 65536
		c20B.Probes = n
	})
	return c20B
}

// ---- the check ----

type c20Extra struct {
	Note string `json:"note"`
	// history family: the SAME flat-fee instruction executed N times while the
	// structure it adds to grows
	HistOp byte `json:"histOp,omitempty"`
	HistN  int  `json:"histN,omitempty"`
}

func checkC20(sc *Scenario, st *Stats) *Violation {
	b := c20Calibrate()
	st.SetExtra("calibration_on_upstream", b)
	m := newMeter()
	var ex0 c20Extra
	_ = json.Unmarshal(sc.Extra, &ex0)
	if ex0.HistN > 0 {
		m.rows = make([]meterRow, 0, 2*ex0.HistN+64)
		m.keep = func(op byte) bool { return op == ex0.HistOp }
	}
	// A host answers BLOCKHASH by walking its chain back from the head (one header
	// read per block, as go-ethereum's GetHashFn does): a lookup outside the window of
	// 256 blocks is work without a bound for the flat 20 gas
	var badLookups []uint64
	art := RunArtela(sc, ArtelaOpts{CustomTracer: meterA{m}, NoRoot: true, OnGetHash: func(n uint64) {
		if n >= scenBlockNumber || n+256 < scenBlockNumber {
			badLookups = append(badLookups, n)
		}
	}, WrapState: func(s avm.StateDB) avm.StateDB {
		m.cs = &countState{StateDB: s.(*state.StateDB)}
		return m.cs
	}})
	var ex c20Extra
	_ = json.Unmarshal(sc.Extra, &ex)
	lastOp := byte(0)
	if len(m.rows) > 0 {
		lastOp = m.rows[len(m.rows)-1].Op
	}
	for i := range art.Obs {
		if p := art.Obs[i].Panic; p != "" {
			if strings.Contains(p, "c20Abort") {
				return violf(fmt.Sprintf("reads/op=%02x", lastOp), "%s: instruction %02x performed more than %d state reads for %d gas", ex.Note, lastOp, c20ReadCap, m.rows[len(m.rows)-1].Cost)
			}
			return violf("panic", "%s: the VM panicked: %.1500s", ex.Note, p)
		}
	}
	if len(badLookups) > 0 {
		return violf("blockhash/out-of-window-lookup", "%s: the host was asked for the hash of block %d while executing block %d (window: the 256 most recent blocks); a chain-walking host does %d header reads for BLOCKHASH's flat fee", ex.Note, badLookups[0], scenBlockNumber, scenBlockNumber-int(minU64(badLookups[0], scenBlockNumber)))
	}
	big20, multi := false, false
	for _, w := range m.work() {
		if float64(w.Reads) > b.ReadsPerGas*float64(w.Consumed)+b.ReadsConst {
			return violf(fmt.Sprintf("reads/op=%02x", w.Op), "%s: instruction %02x at pc %d performed %d state reads for %d gas (bound %.3f reads/gas + %.0f)", ex.Note, w.Op, w.PC, w.Reads, w.Consumed, b.ReadsPerGas, b.ReadsConst)
		}
		if ex.HistN > 0 && w.Op == ex.HistOp {
			// amortised below: a container doubling once in a while is how the protocol's
			// own structures (dirty-storage maps, journals) grow as well
			st.Label(fmt.Sprintf("measured-op:%02x", w.Op))
			continue
		}
		if float64(w.Alloc) > b.BytesPerGas*float64(w.Consumed)+b.BytesConst {
			return violf(fmt.Sprintf("alloc/op=%02x", w.Op), "%s: instruction %02x at pc %d allocated %d bytes for %d gas (bound %.1f bytes/gas + %.0f)", ex.Note, w.Op, w.PC, w.Alloc, w.Consumed, b.BytesPerGas, b.BytesConst)
		}
		if w.Reads >= 2 {
			multi = true
		}
		st.Label(fmt.Sprintf("measured-op:%02x", w.Op))
	}
	if strings.Contains(ex.Note, "2^20") || strings.Contains(ex.Note, "big") {
		big20 = true
	}
	if ex.HistN > 0 {
		// Growth law. The instruction pays the same flat fee every time, so the work of
		// one execution may not grow with the number of executions before it: any
		// growth without bound exceeds every fixed multiple of the fee. Amortised
		// container growth (a map or slice doubling once while its size doubles) is
		// the same in both windows, each of which spans exactly one doubling of the size.
		var ws []workRow
		for _, w := range m.work() {
			if w.Op == ex.HistOp {
				ws = append(ws, w)
			}
		}
		if len(ws) < ex.HistN {
			st.Label("history:incomplete")
		} else {
			mean := func(lo, hi int) (bytes, reads float64) {
				for _, w := range ws[lo:hi] {
					bytes += float64(w.Alloc)
					reads += float64(w.Reads)
				}
				n := float64(hi - lo)
				return bytes / n, reads / n
			}
			n := len(ws)
			aB, aR := mean(n/8, n/4)
			bB, bR := mean(n/2, n)
			st.Label(fmt.Sprintf("history:op=%02x", ex.HistOp))
			if os.Getenv("C20_DEBUG") != "" {
				fmt.Printf("C20H op=%02x n=%d meanA=%.0f meanB=%.0f readsA=%.1f readsB=%.1f\n", ex.HistOp, n, aB, bB, aR, bR)
			}
			if gas := float64(ws[n-1].Consumed); bB > b.BytesPerGas*gas+b.BytesConst {
				return violf(fmt.Sprintf("alloc/op=%02x", ex.HistOp), "%s: instruction %02x allocated %.0f bytes per execution (mean over executions %d..%d) for %.0f gas (bound %.1f bytes/gas + %.0f)", ex.Note, ex.HistOp, bB, n/2, n, gas, b.BytesPerGas, b.BytesConst)
			}
			if bB > 2*aB+512 {
				return violf(fmt.Sprintf("growth-alloc/op=%02x", ex.HistOp), "%s: instruction %02x pays the same %d gas every time, but allocated %.0f bytes per execution over executions %d..%d against %.0f bytes over executions %d..%d: its work grows with the history it built", ex.Note, ex.HistOp, ws[n-1].Consumed, bB, n/2, n, aB, n/8, n/4)
			}
			if bR > 2*aR+2 {
				return violf(fmt.Sprintf("growth-reads/op=%02x", ex.HistOp), "%s: instruction %02x pays the same %d gas every time, but made %.1f state reads per execution over executions %d..%d against %.1f over executions %d..%d", ex.Note, ex.HistOp, ws[n-1].Consumed, bR, n/2, n, aR, n/8, n/4)
			}
			big20 = n >= 1000
		}
	}
	nontrivial := big20 || multi
	// compact sample (the scenario itself carries a 20 KB dummy contract)
	sample := map[string]interface{}{"probe": ex.Note, "fork": sc.Fork, "code": fmt.Sprintf("%x", []byte(sc.Accounts[0].Code)), "storage": sc.Accounts[0].Storage}
	st.Case(sc.JSON(), nontrivial, sample, "family:"+strings.SplitN(ex.Note, " ", 2)[0], "fork:"+sc.Fork)
	return nil
}

func genC20(t *rapid.T) *Scenario {
	fork := ForkNames[uniform(t, 0, 12, "fork")]
	note := ""
	var sc *Scenario
	storage := map[common.Hash]common.Hash{}
	switch r := uniform(t, 0, 12, "family"); {
	case r == 12:
		return genC20History(t, fork)
	case r >= 10:
		// a standard precompile with a hostile input: length header words of every size
		pnum := uint64(uniform(t, 1, 9, "stdp"))
		if chance(t, 40, "stdmodexp") {
			pnum = 5
		}
		if forkIndex(fork) < 7 {
			fork = "Istanbul"
		}
		nwords := uniform(t, 0, 7, "stdwords")
		if pnum == 5 {
			nwords = uniform(t, 3, 6, "stdwords5")
		}
		note = fmt.Sprintf("std-precompile %d big", pnum)
		var words []*uint256.Int
		for i := 0; i < nwords; i++ {
			if pnum == 5 && i < 3 {
				// the three length words of MODEXP
				words = append(words, uint256.NewInt(pickU64(t, "stdw5", 0, 0, 1, 32, 1<<20, 1<<26)))
				continue
			}
			if chance(t, 70, "stdhost") {
				words = append(words, uint256.NewInt(pickU64(t, "stdw", 0, 1, 32, 64, 1024, 1<<16, 1<<20, 1<<24, 1<<26)))
			} else {
				words = append(words, genWord(t, "stdgw"))
			}
		}
		inLen := uint64(nwords*32 + pickInt(t, "stdtail", 0, 0, 1, 31, 213-32*4))
		sc = c20Probe(fork, func(a *Asm) {
			for i, w := range words {
				a.Push(w).Push(i * 32).Op(MSTORE)
			}
			a.Push(1).Push(0x400).Op(MSTORE)
			a.Push(0x40).Push(0x400).Push(inLen).Push(0).Push(0).Push(pnum).Push(uint64(pickInt(t, "stdgas", 100000, 5000, 200, 1000000))).Op(CALL, POP)
		}, nil, nil)
	case r < 3:
		// VRJNAL over stored strings of generated (also huge) length
		lens := []uint64{0, 31, 32, 100, 1024, 32768, 1 << 20, 1 << 20, 1 << 24, 1 << 32, 1 << 62}
		l := lens[uniform(t, 0, len(lens)-1, "strlen")]
		if chance(t, 95, "nothuge") && l > 1<<20 {
			l = 1 << 20
		}
		var w common.Hash
		if l < 32 {
			w[31] = byte(2 * l)
		} else {
			w = common.BigToHash(new(big.Int).Add(new(big.Int).Lsh(new(big.Int).SetUint64(l), 1), big.NewInt(1)))
		}
		storage[common.BigToHash(big.NewInt(0x1000))] = w
		note = fmt.Sprintf("vrjnal stored-length=%d", l)
		if l >= 1<<20 {
			note += " (>= 2^20)"
		}
		sc = c20Probe(fork, func(a *Asm) {
			c := &codeGen{a: a}
			c.registerKey(jTopRef[0])
			c.journalChange(jTopRef[0])
		}, storage, nil)
	case r < 6:
		// key registration with a name / index key of generated size in memory
		sizes := []int{0, 1, 32, 1000, 32768, 262144, 1 << 20}
		n := sizes[uniform(t, 0, len(sizes)-1, "namelen")]
		op := []byte{RSVJNAL, VSVJNAL, IRVVJNAL, IRVRJNAL}[uniform(t, 0, 3, "regop")]
		note = fmt.Sprintf("register op=%02x name-bytes=%d", op, n)
		if n >= 1<<20 {
			note += " (2^20, big)"
		}
		sc = c20Probe(fork, func(a *Asm) {
			// allocate memory: jMemName + 32 + n, then the length word
			a.Push(1).Push(jMemName + 32 + n).Op(MSTORE)
			a.Push(n).Push(jMemName).Op(MSTORE)
			switch op {
			case RSVJNAL:
				a.Push(0x5000).Push(0x1000).Push(jMemName).Op(RSVJNAL)
			case VSVJNAL:
				a.Push(0x5001).Push(0).Push(0x1001).Push(jMemName).Op(VSVJNAL)
			default:
				// parent first (name "p"), then the nested key with the big index
				a.Push(0x5002).Push(0).Push(0x1002).Push(0x20).Op(VSVJNAL) // name at 0x20: zero length word => ""
				if op == IRVVJNAL {
					a.Push(0x5002).Push(0x6000).Push(0).Push(jMemName).Push(0x2000).Push(0x1002).Op(IRVVJNAL)
				} else {
					a.Push(0x5002).Push(0x6000).Push(jMemName).Push(0x2000).Push(0x1002).Op(IRVRJNAL)
				}
			}
		}, nil, nil)
	case r < 8:
		// Artela precompiles with payloads of generated size
		n := []int{0, 128, 1024, 32768, 262144}[uniform(t, 0, 4, "paylen")]
		target := byte(0x64 + uniform(t, 0, 2, "target"))
		note = fmt.Sprintf("precompile %#x payload-bytes=%d big", target, n)
		var hostileLen, hostileAt uint64
		if target == 0x66 && n >= 128 && rapid.Bool().Draw(t, "hostlen") {
			hostileLen = pickU64(t, "hostlenv", 1<<20, 1<<24, 1<<26, 1<<27, 1<<28)
			hostileAt = pickU64(t, "hostlenat", 0x40, 0x60)
			note += fmt.Sprintf(" length-word=%d@%#x", hostileLen, hostileAt)
		}
		if forkIndex(fork) < 8 {
			fork = "Berlin"
		}
		sc = c20Probe(fork, func(a *Asm) {
			if target == 0x66 {
				// a decodable (bytes,bytes) head: key at 0x40 (len 0), value at 0x60 (len n-128)
				a.Push(0x40).Push(0).Op(MSTORE)
				a.Push(0x60).Push(0x20).Op(MSTORE)
				if n >= 128 {
					a.Push(n - 128).Push(0x60).Op(MSTORE)
				}
				if hostileLen > 0 {
					// a length word that announces far more than the payload holds
					a.Push(hostileLen).Push(hostileAt).Op(MSTORE)
				}
			}
			a.Push(1).Push(n).Op(MSTORE) // allocate
			// a failing call forfeits everything it was given: forward little more than the fee
			a.Push(0x20).Push(0).Push(n).Push(0).Push(0).Push(uint64(target)).Push(uint64(pickInt(t, "pregas", 100000, 6000, 5000))).Op(CALL, POP)
		}, nil, nil)
	default:
		// any single standard or journal instruction with generated operands
		g := newProgGen(t, ProgCfg{Fork: fork, Journal: true, Contracts: 2})
		note = "micro op"
		bh := chance(t, 15, "blockhash")
		var bhn *uint256.Int
		if bh {
			// block numbers around the 256-block window of block 1000, and far away
			bhn = uint256.NewInt(pickU64(t, "bhn", 0, 1, 500, 743, 744, 745, 998, 999, 1000, 1001, 1<<32, ^uint64(0)))
			if chance(t, 15, "bhbig") {
				bhn = genWord(t, "bhw")
			}
			note = "micro blockhash big"
		}
		sc = c20Probe(fork, func(a *Asm) {
			c := &codeGen{g: g, a: a}
			a.Push(1).Push(0x400).Op(MSTORE)
			if bh {
				a.Push(bhn).Op(BLOCKHASH, POP)
				return
			}
			c.micro()
		}, hostileStorageSmall(t), rapid.SliceOfN(rapid.Byte(), 0, 64).Draw(t, "cd"))
	}
	ex := c20Extra{Note: note}
	sc.Extra, _ = json.Marshal(ex)
	return sc
}

// genC20History: a loop executing one key-registering / journaling instruction N
// times, every time on a NEW location under the same parent (or a new top-level
// name, or a new change of the same key), so that the tracer's structures grow.
func genC20History(t *rapid.T, fork string) *Scenario {
	if chance(t, 20, "codesize") {
		// the same flat-fee JUMP executed many times inside init code of a chosen (large)
		// size: what a jump costs the VM must not scale with the size of the code around it
		// (the one-off analysis of the code shows in the first execution only)
		size := pickInt(t, "codesz", 4096, 65536, 1<<20, 1<<20)
		iters := pickInt(t, "codeit", 300, 2000)
		a := NewAsm()
		top, end := a.NewLabel(), a.NewLabel()
		a.Push(iters)
		a.Label(top)
		a.Op(DUP1, ISZERO).Jumpi(end)
		a.Push(1).Op(SWAP1, SUB).Jump(top)
		a.Label(end)
		a.Op(POP, STOP)
		code := a.Bytes()
		init := make([]byte, size)
		copy(init, code)
		if forkIndex(fork) >= 11 {
			fork = "London" // EIP-3860 caps init code from Shanghai on
		}
		sc := &Scenario{Fork: fork}
		sc.Accounts = []Account{{Addr: ContractAddrs[0], Nonce: 1, Code: []byte{STOP}}, {Addr: EOAAddr, Balance: hexU64(1 << 40), Nonce: 1}}
		sc.Invs = []Invocation{{Kind: "create", Origin: EOAAddr, Caller: EOAAddr, Input: init, Gas: 25_000_000, JP: true}}
		ex := c20Extra{Note: fmt.Sprintf("history codesize=%d jumps=%d big", size, iters), HistOp: JUMP, HistN: iters}
		sc.Extra, _ = json.Marshal(ex)
		return sc
	}
	n := pickInt(t, "histn", 64, 1000, 4000, 12000, 20000)
	op := []byte{IVVVJNAL, IVVRJNAL, IRVVJNAL, IRVRJNAL, VSVJNAL, RSVJNAL, VVJNAL}[uniform(t, 0, 6, "histop")]
	const pSlot, pType, kType, base = 0x1002, 0x5002, 0x6000, 0x100000
	sc := c20Probe(fork, func(a *Asm) {
		a.Push(1).Push(0x800).Op(MSTORE)
		a.Push(0x5002).Push(0).Push(pSlot).Push(0x20).Op(VSVJNAL) // parent, name ""
		a.Push(32).Push(jMemName).Op(MSTORE)                      // length word of the name / reference index key
		top, end := a.NewLabel(), a.NewLabel()
		a.Push(n)
		a.Label(top)
		a.Op(DUP1, ISZERO).Jumpi(end)
		// the counter is on top: use it as index key, name and slot offset
		a.Op(DUP1).Push(jMemName + 32).Op(MSTORE)
		switch op {
		case IVVVJNAL: // (base, slot, keyValue, offset, typeId, parentTypeId)
			a.Push(pType).Push(kType).Push(0).Op(DUP1+3, DUP1+4).Push(base).Op(ADD).Push(pSlot).Op(IVVVJNAL)
		case IVVRJNAL: // (base, slot, keyValue, typeId, parentTypeId)
			a.Push(pType).Push(kType).Op(DUP1+2, DUP1+3).Push(base).Op(ADD).Push(pSlot).Op(IVVRJNAL)
		case IRVVJNAL: // (base, slot, keyPtr, offset, typeId, parentTypeId)
			a.Push(pType).Push(kType).Push(0).Push(jMemName).Op(DUP1 + 4).Push(base).Op(ADD).Push(pSlot).Op(IRVVJNAL)
		case IRVRJNAL: // (base, slot, keyPtr, typeId, parentTypeId)
			a.Push(pType).Push(kType).Push(jMemName).Op(DUP1 + 3).Push(base).Op(ADD).Push(pSlot).Op(IRVRJNAL)
		case VSVJNAL: // (namePtr, slot, offset, typeId)
			a.Push(kType).Push(0).Op(DUP1 + 2).Push(base).Op(ADD).Push(jMemName).Op(VSVJNAL)
		case RSVJNAL: // (namePtr, slot, typeId)
			a.Push(kType).Op(DUP1 + 1).Push(base).Op(ADD).Push(jMemName).Op(RSVJNAL)
		default: // a new value of the parent's slot, journaled: (slot, offset, size, typeId)
			a.Op(DUP1).Push(pSlot).Op(SSTORE)
			a.Push(pType).Push(32).Push(0).Push(pSlot).Op(VVJNAL)
		}
		a.Push(1).Op(SWAP1, SUB).Jump(top)
		a.Label(end)
		a.Op(POP)
	}, nil, nil)
	sc.Invs[0].Gas = 400_000_000
	ex := c20Extra{Note: fmt.Sprintf("history op=%02x n=%d", op, n), HistOp: op, HistN: n}
	sc.Extra, _ = json.Marshal(ex)
	return sc
}

// hostileStorageSmall: string length words up to 2^20 (beyond is the open finding's territory).
func hostileStorageSmall(t *rapid.T) map[common.Hash]common.Hash {
	st := map[common.Hash]common.Hash{}
	for i := 0; i < 6; i++ {
		l := pickU64(t, "hsl", 0, 5, 31, 32, 64, 1000, 32768, 1<<20)
		w := common.BigToHash(new(big.Int).SetUint64(2*l + 1))
		if l < 32 {
			w = common.Hash{}
			w[31] = byte(2 * l)
		}
		st[common.BigToHash(big.NewInt(int64(0x7000+i)))] = w
		st[common.BigToHash(big.NewInt(int64(0x1000+i%3)))] = w
	}
	return st
}

func TestC20(t *testing.T)       { runProp(t, "C20", genC20, checkC20) }
func TestC20Replay(t *testing.T) { replayProp(t, "C20", checkC20) }

var _ = uint256.NewInt

func minU64(a, b uint64) uint64 {
	if a < b {
		return a
	}
	return b
}
