import os
p=os.environ['WT']+'/vm/evm.go'
s=open(p).read()
old='''	if err != nil {
		evm.StateDB.RevertToSnapshot(snapshot)
		if err != ErrExecutionReverted {
			gas = 0
		}
		// TODO: consider clearing up unused snapshots:'''
assert old in s
s=s.replace(old,'''	if err != nil {
		if err != ErrOutOfGas || !isPrecompile {
			evm.StateDB.RevertToSnapshot(snapshot)
		}
		if err != ErrExecutionReverted {
			gas = 0
		}
		// TODO: consider clearing up unused snapshots:''')
open(p,'w').write(s)
