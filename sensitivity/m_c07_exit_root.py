import os
p=os.environ['WT']+'/vm/tracer.go'
s=open(p).read()
old='''	c.current = c.current.Parent
}'''
assert old in s
s=s.replace(old,'''	if err != nil && c.current.Parent != nil && c.current.Parent.Parent != nil {
		// failed call: unwind
		c.current = c.current.Parent.Parent
		return
	}
	c.current = c.current.Parent
}''')
open(p,'w').write(s)
