import os
p=os.environ['WT']+'/vm/instructions.go'
s=open(p).read()
old='''	if !value.IsZero() {
		gas += params.CallStipend
		bigVal = value.ToBig()
	}

	ret, returnGas, err := interpreter.evm.Call('''
assert old in s
s=s.replace(old,'''	if !value.IsZero() {
		gas += params.CallStipend - 1
		bigVal = value.ToBig()
	}

	ret, returnGas, err := interpreter.evm.Call(''')
open(p,'w').write(s)
