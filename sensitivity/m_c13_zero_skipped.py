import os
p=os.environ['WT']+'/vm/tracer.go'
s=open(p).read()
old='''	callIdx := t.CurrentCallIndex()
	t.states.saveBalance(from, uint256.MustFromBig(db.GetBalance(from)), callIdx)'''
assert old in s
s=s.replace(old,'''	callIdx := t.CurrentCallIndex()
	if amount.Sign() == 0 {
		transfer(db, from, to, amount)
		return
	}
	t.states.saveBalance(from, uint256.MustFromBig(db.GetBalance(from)), callIdx)''')
open(p,'w').write(s)
