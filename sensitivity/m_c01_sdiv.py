import os
p=os.environ['WT']+'/vm/instructions.go'
s=open(p).read()
# SMOD: drop the sign handling for negative dividends
old='''func opSmod('''
i=s.index(old); j=s.index('return nil, nil', i)
seg=s[i:j]
assert 'SMod' in seg
s=s[:i]+seg.replace('y.SMod(&x, y)','y.Mod(&x, y)')+s[j:]
open(p,'w').write(s)
