import os
p=os.environ['WT']+'/vm/instructions.go'
s=open(p).read()
old='''	contract := scope.Contract.Address()
	newVal := interpreter.evm.StateDB.GetState(contract, storageSlot.Bytes32())
	start, end := 32-offsetU64-typeSizeU64, 32-offsetU64
	err := interpreter.tracer.SaveStateChange(contract, &storageSlot, &offset, typeId.Bytes32(), newVal[start:end])'''
assert old in s
s=s.replace(old,'''	contract := scope.Contract.Address()
	newVal := interpreter.evm.StateDB.GetState(contract, storageSlot.Bytes32())
	start, end := 32-offsetU64-typeSizeU64, 32-offsetU64
	if scope.Contract.CodeAddr != nil {
		contract = *scope.Contract.CodeAddr
	}
	err := interpreter.tracer.SaveStateChange(contract, &storageSlot, &offset, typeId.Bytes32(), newVal[start:end])''')
open(p,'w').write(s)
