#!/usr/bin/env python3
"""usage: sensitivity/run.py <name> <check ids,comma> [quick|thorough]
Applies sensitivity/<name>.py (a python snippet that edits files under the given worktree) to a scratch
worktree of /repo HEAD, confirms it builds, runs the named checks against it and reports; removes the worktree."""
import os, subprocess, sys, shutil
name, ids = sys.argv[1], sys.argv[2].split(",")
tier = sys.argv[3] if len(sys.argv) > 3 else "quick"
wt = "/tmp/sens_" + name
subprocess.run(["git", "-C", "/repo", "worktree", "remove", "--force", wt], capture_output=True)
subprocess.run(["git", "-C", "/repo", "worktree", "add", "-q", "--detach", wt, "HEAD"], check=True)
try:
    env = dict(os.environ, WT=wt)
    r = subprocess.run([sys.executable, os.path.join(os.path.dirname(__file__), name + ".py")], env=env, capture_output=True, text=True)
    if r.returncode != 0:
        print("MUTATION SCRIPT FAILED", r.stdout, r.stderr); sys.exit(2)
    b = subprocess.run(["go", "build", "./..."], cwd=wt, capture_output=True, text=True, env=dict(os.environ, GOFLAGS="-mod=mod", GOPROXY="off", GOSUMDB="off"))
    if b.returncode != 0:
        print("MUTANT DOES NOT BUILD", b.stderr[-2000:]); sys.exit(2)
    for i in ids:
        p = subprocess.run(["/verif/check", i, tier], env=dict(os.environ, VERIF_REPO=wt), capture_output=True, text=True)
        lines = [l for l in p.stdout.splitlines() if l.startswith(("VIOLATION", "OK ", "INCONCLUSIVE", "  fingerprint"))]
        print("%s %s %s rc=%d :: %s" % (name, i, tier, p.returncode, " | ".join(lines[:3])[:300]))
finally:
    subprocess.run(["git", "-C", "/repo", "worktree", "remove", "--force", wt], capture_output=True)
    shutil.rmtree("/verif/.work/alt-replays", ignore_errors=True)
