import os
p=os.environ['WT']+'/vm/gas_table.go'
s=open(p).read()
old='''		// TODO: 🐸implement gas rule later
		return params.SloadGasEIP2200, nil'''
assert old in s
s=s.replace(old,'''		// TODO: 🐸implement gas rule later
		if n == 6 && evm.chainRules.IsBerlin {
			return params.SloadGasEIP2200 + params.WarmStorageReadCostEIP2929, nil
		}
		return params.SloadGasEIP2200, nil''')
open(p,'w').write(s)
