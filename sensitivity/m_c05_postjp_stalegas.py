import os
p=os.environ['WT']+'/vm/evm.go'
s=open(p).read()
old='''			ret, err = evm.interpreter.Run(ctx, contract, input, false)
			gas = contract.Gas

			if evm.IsExecuteJP {
				var errorMsg string'''
assert old in s
s=s.replace(old,'''			ret, err = evm.interpreter.Run(ctx, contract, input, false)
			jpGas := gas
			gas = contract.Gas

			if evm.IsExecuteJP {
				var errorMsg string''')
s=s.replace('''						Value: value.Bytes(),
						Gas:   &gas,
						Ret:   ret,''','''						Value: value.Bytes(),
						Gas:   &jpGas,
						Ret:   ret,''')
open(p,'w').write(s)
