import os
p=os.environ['WT']+'/vm/memory_table.go'
s=open(p).read()
old='''	if stack.Back(1).Gt(mStart) {
		mStart = stack.Back(1) // stack[1]: source
	}'''
assert old in s
s=s.replace(old,'''	if stack.Back(1).Gt(mStart) && !stack.Back(2).IsZero() && stack.Back(2).LtUint64(33) {
		mStart = stack.Back(1) // stack[1]: source
	}''')
open(p,'w').write(s)
