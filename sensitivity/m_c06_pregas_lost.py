import os
p=os.environ['WT']+'/vm/evm.go'
s=open(p).read()
old='''				gas = preCallResult.Gas
			}
'''
assert old in s
s=s.replace(old,'''				if preCallResult.Gas > gas {
					gas = preCallResult.Gas
				}
			}
''')
open(p,'w').write(s)
