#!/usr/bin/env python3
"""Regenerates MANIFEST.json from props.py (keeps the two in sync)."""
import json
import os
import sys

sys.path.insert(0, os.path.dirname(os.path.abspath(__file__)))
from props import PROPS, MANIFEST_TEXT, NOT_APPLICABLE  # noqa

ALL = ["C%02d" % i for i in range(1, 21)]

checks = []
for pid in ALL:
    if pid not in PROPS:
        continue
    cfg = PROPS[pid]
    txt = MANIFEST_TEXT[pid]
    checks.append({
        "property_id": pid,
        "quick_cmd": "./check %s quick" % pid,
        "thorough_cmd": "./check %s thorough" % pid,
        "evidence_file": "/verif/evidence/%s.json" % pid,
        "replay_cmd_template": "./check %s --replay {path}" % pid,
        "engine": "harness",
        "level_claimed": {"category": cfg["level"], "text": txt["level_text"], "design_ref": txt["design_ref"]},
        "level_note": txt["level_note"],
        "technique": txt["technique"],
    })

na = [{"property_id": p, "reason": NOT_APPLICABLE[p]} for p in ALL if p not in PROPS]
for p in ALL:
    if p not in PROPS and p not in NOT_APPLICABLE:
        raise SystemExit("property %s neither claimed nor listed as not applicable" % p)

manifest = {
    "version": 1,
    "setup_cmd": "./check --setup",
    "hooks": {
        "guard": "verif",
        "enable": "go build tag 'verif' (the harness is compiled with -tags verif); no hook files exist in /repo so far",
        "baseline_off_cmd": "cd /repo && go build ./... && go test -vet=off -count=1 -timeout 25m ./...",
        "source_commits": [],
        "add_only": True,
    },
    "engines": [{
        "name": "harness",
        "path": "/verif/harness",
        "serves_properties": [c["property_id"] for c in checks],
        "kind_free_text": "Go test binary: rapid v1.3.0 generators/state machines + explicit oracles (upstream go-ethereum v1.12.0 "
                          "as reference implementation, executable models, metamorphic pairs, history invariants); driver ./check",
    }],
    "checks": checks,
    "not_applicable": na,
    "notes": "All checks rebuild the harness against /repo's working tree (replace directive) before running. "
             "Exit 0 = held, 1 = VIOLATION line + replay file, 2 = inconclusive (build failure, timeout, non-reproducible).",
}
json.dump(manifest, open(os.path.join(os.path.dirname(os.path.abspath(__file__)), "MANIFEST.json"), "w"), indent=1)
print("MANIFEST.json: %d checks, %d not applicable" % (len(checks), len(na)))
