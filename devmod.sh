#!/bin/sh
# points harness/go.mod back at /repo (for manual go vet / go test during development)
sed "s#@REPO@#/repo#" /verif/harness/go.mod.tmpl > /verif/harness/go.mod
