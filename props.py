"""Per-property configuration of the checks (read by ./check)."""

COMMON_ASSUMPTIONS = [
    "go-ethereum v1.12.0 core/vm, core/state (module cache) are the reference implementation / state backend",
    "pgregory.net/rapid v1.3.0 draws and shrinks the cases; every run is a function of VERIF_SEED and the code",
    "host preconditions every real caller satisfies are respected by the generators (StateDB.Prepare before each "
    "top-level call, non-nil BlockNumber/Difficulty/value, value < 2^256, installed Aspect provider and callbacks)",
]

PROPS = {}


def prop(pid, level, rule, stages, replay_test=None, assumptions=None, race=False):
    PROPS[pid] = {
        "level": level,
        "rule": rule,
        "stages": stages,
        "replay_test": replay_test or ("Test%sReplay" % pid),
        "assumptions": COMMON_ASSUMPTIONS + (assumptions or []),
        "race": race,
    }


prop("C01", "exploration",
     "cases = generated scenarios (1-4 mutually calling generated contracts, stack-aware programs over every opcode "
     "defined on the fork, boundary-heavy operands, calls/creates/selfdestructs/loops, 1-3 top-level invocations over "
     "all six entry points, forks Frontier..Shanghai x extra-EIP subsets x access lists), each executed on upstream "
     "core/vm and on artela-evm (5 tracer/join-point configurations). Non-trivial = the reference run executed >= 8 "
     "instructions and (entered a nested frame or executed a state-changing opcode); distinct = distinct scenario JSON.",
     [{"test": "TestC01", "quick": {"checks": 6000, "shards": 2, "timeout": 600},
       "thorough": {"checks": 60000, "shards": 16, "timeout": 3000}}])

# ---------------------------------------------------------------------------
# Text for MANIFEST.json (gen_manifest.py)

MANIFEST_TEXT = {
    "C01": {
        "level_text": "Differential property-based testing: generated programs/pre-states/configurations are executed on the "
                      "upstream v1.12.0 interpreter and on artela-evm and every observable outcome (return data, error class, "
                      "leftover gas, created address, logs, refund, self-destructs, state root) must agree, also across tracer and "
                      "join-point configurations. Sampling, not proof: strength = reach of the generator, reported as "
                      "(fork x opcode) execution coverage in the evidence.",
        "design_ref": "DESIGN.md section 4, C01",
        "level_note": "Trusted: upstream core/vm as oracle, geth's state.StateDB on both sides, the scenario generator's host "
                      "preconditions. Programs touching 0x64-0x66 or journal opcode bytes are out of the property's domain and "
                      "are discarded (counted).",
        "technique": "property-based differential testing against a reference implementation (rapid)",
    },
}

# Properties not (yet) claimed: reason per property. Kept current as checks are added.
NOT_APPLICABLE = {
    "C%02d" % i: "check not built yet in this session (planned, see DESIGN.md section 9)" for i in range(2, 21)
}
