"""Per-property configuration of the checks (read by ./check)."""

COMMON_ASSUMPTIONS = [
    "go-ethereum v1.12.0 core/vm, core/state (module cache) are the reference implementation / state backend",
    "pgregory.net/rapid v1.3.0 draws and shrinks the cases; every run is a function of VERIF_SEED and the code",
    "host preconditions every real caller satisfies are respected by the generators (StateDB.Prepare before each "
    "top-level call, non-nil BlockNumber/Difficulty/value, value < 2^256, installed Aspect provider and callbacks)",
]

PROPS = {}


def prop(pid, level, rule, stages, replay_test=None, assumptions=None, race=False):
    PROPS[pid] = {
        "level": level,
        "rule": rule,
        "stages": stages,
        "replay_test": replay_test or ("Test%sReplay" % pid),
        "assumptions": COMMON_ASSUMPTIONS + (assumptions or []),
        "race": race,
    }


prop("C01", "exploration",
     "cases = generated scenarios (1-4 mutually calling generated contracts, stack-aware programs over every opcode "
     "defined on the fork, boundary-heavy operands, calls/creates/selfdestructs/loops, 1-3 top-level invocations over "
     "all six entry points, forks Frontier..Shanghai x extra-EIP subsets x access lists), each executed on upstream "
     "core/vm and on artela-evm (5 tracer/join-point configurations). Non-trivial = the reference run executed >= 8 "
     "instructions and (entered a nested frame or executed a state-changing opcode); distinct = distinct scenario JSON. Generator additions (shared by C02 and C18): creations followed by an access to the created address whether or not the creation succeeded, init-code sizes around the EIP-170 / EIP-3860 limits, programs that fill the stack to 1024 / 1023 / 1022 items before one more instruction, standard precompile calls with overlapping windows, same-key SSTORE sequences, EVM.Reset between invocations.",
     [{"test": "TestC01", "quick": {"checks": 6000, "shards": 2, "timeout": 600},
       "thorough": {"checks": 7500, "shards": 16, "timeout": 7200}},
      {"fuzz": "FuzzC01", "thorough": {"fuzztime": "180s", "timeout": 1800}}])

prop("C02", "exploration",
     "cases = the C01 scenario space; both implementations run with a recording debug tracer and the streams "
     "(depth, pc, op, gas before, cost) of every step, gas of every enter, gasUsed of every exit, refund and leftover gas "
     "must be equal; then the gas limit of the last invocation is swept over limits derived from the ample-gas run "
     "(u_i-1, u_i, u_i+1 and u_i+cost_i-1.. for sampled top-level steps i; points between for nested steps) and the "
     "comparison is repeated per limit. Non-trivial = run contains a dynamic-gas opcode AND a swept limit changed the "
     "outcome w.r.t. the ample-gas run; distinct = distinct scenario JSON (incl. sweep selectors).",
     [{"test": "TestC02", "quick": {"checks": 1200, "shards": 4, "timeout": 600},
       "thorough": {"checks": 3000, "shards": 16, "timeout": 7200}},
      {"fuzz": "FuzzC02", "thorough": {"fuzztime": "120s", "timeout": 1800}}])

prop("C18", "exploration",
     "cases = C01 scenario space x tracer configuration (struct logger memory/stack/storage/return-data/limit; callTracer "
     "onlyTopCall/withLog; flatCallTracer convertParityErrors/includePrecompiles; prestateTracer diffMode; 4byteTracer; "
     "access-list tracer; none). (a) recorded callback streams incl. stack, memory hash, return data, scope address are "
     "compared event by event with upstream; (b) upstream eth/tracers/* on upstream EVM vs /repo/tracers/* on artela-evm "
     "must give byte-equal results; (c) on artela-evm alone, with provider failures injected at generated join-point "
     "lookups, start/end and enter/exit must be balanced and LIFO and step depths must match the open frames. "
     "Non-trivial = a nested frame and a fault/revert occurred.",
     [{"test": "TestC18", "quick": {"checks": 2500, "shards": 4, "timeout": 600},
       "thorough": {"checks": 6250, "shards": 16, "timeout": 7200}},
      {"fuzz": "FuzzC18", "thorough": {"fuzztime": "120s", "timeout": 1800}}])

prop("C15", "exploration",
     "cases = Cancun scenarios from two generators: (1) scripted contracts over TSTORE/TLOAD/MCOPY with calls of all "
     "four kinds between them, re-entrancy and failing frames; (2) generated programs with TLOAD/TSTORE/MCOPY favoured and "
     "boundary operands (overlap both ways, zero length, huge offsets). Every TLOAD result, TSTORE outcome and fee is "
     "compared with an executable EIP-1153 model driven by the frame events (per storage address, restored on frame "
     "failure, refused in static context, empty per transaction, fee 100); every MCOPY is compared with an EIP-5656 "
     "model (memmove on zero-extended memory, new size, 3+3*words+expansion gas, unpayable => failure); the same scenario "
     "re-run on a generated pre-Cancun fork must raise invalid opcode at each of the three bytes. Non-trivial = an "
     "overlapping, memory-expanding MCOPY or a TLOAD of a key restored by a failed frame. One contract in ten is a stack-limit program (TLOAD / TSTORE / MCOPY with 1023 or 1024 items on the stack); a stack error is only accepted with fewer operands than the instruction pops.",
     [{"test": "TestC15", "quick": {"checks": 4000, "shards": 2, "timeout": 600},
       "thorough": {"checks": 5000, "shards": 16, "timeout": 7200}}])

TREE_CASES = ("cases = scenarios from three generators: scripted call trees (2-4 contracts, acyclic call graph plus "
              "re-entrant calls, all four call kinds, CREATE/CREATE2 with init scripts, value transfers, small fixed call gas, "
              "REVERT/INVALID/SELFDESTRUCT endings, nonce-overflow and collision pre-states, 1-4 top-level invocations of all "
              "entry-point kinds on ONE EVM), generated programs (C01 generator incl. non-standard bytes) and a recursion "
              "template that reaches the 1024 depth limit; provider failures are injected at 0-3 generated join-point lookups. ")

prop("C07", "exploration",
     TREE_CASES + "After every top-level return the call-tree cursor must be at rest; at the end the tree must have dense "
     "indices 0..n-1 = the number of call attempts counted independently from the instruction stream, FindCall(i).Index==i, "
     "parent.Index < Index, each node exactly once among its parent's children in increasing order, all accessors "
     "consistent, every node reachable, and each node's parent = the innermost recorded frame that issued it (from the "
     "event stream). Non-trivial = >= 3 nodes, >= 1 failed node, depth >= 2. 5% of the cases come from the 1024-depth template (with a CREATE variant) and the address-collision template.",
     [{"test": "TestC07", "quick": {"checks": 4000, "shards": 2, "timeout": 600},
       "thorough": {"checks": 5000, "shards": 16, "timeout": 7200}}])

prop("C08", "exploration",
     TREE_CASES + "At every CALL/CREATE/CREATE2 step the recorder copies operands and the argument bytes from memory at that "
     "instant; Enter/Exit events and the caller-side gas arithmetic give supplied gas, output, error, leftover gas. After "
     "the whole scenario node k of the call tree must equal attempt k in From, To, Value, Gas, Data, Ret, Err text and "
     "RemainingGas, and no further node may exist. Non-trivial = a call whose argument window was overwritten later in "
     "the same frame, or a call refused up front. Recorded fields are compared node by node in creation order also when the links of the tree are broken; depth and collision templates as in C07.",
     [{"test": "TestC08", "quick": {"checks": 4000, "shards": 2, "timeout": 600},
       "thorough": {"checks": 5000, "shards": 16, "timeout": 7200}}])

prop("C05", "exploration",
     "cases = scripted call trees (budget 7 frames, all call kinds, creates, re-entrancy, 35% empty calldata, 40% value "
     "transfers, 1-3 invocations with join points toggled per invocation) x real WASM Aspect doubles (no-op / trap / revert) "
     "bound to a generated subset of contracts on pre and/or post join point (0-2 each) x provider failures at generated "
     "lookups. Oracle over the merged event log (debug tracer + provider-lookup log + AspectLogger): per Call-path frame with "
     "code, not a precompile, join points on: exactly one pre lookup for that contract before its first step, exactly one "
     "post lookup after its last step (none if pre failed, and then no step at all and the call reports failure); none "
     "otherwise; payload of every Aspect execution (from, to, data, value, gas, call-tree index; post: return data, error "
     "text, gas left by the callee's last instruction) equals that frame's; a bound no-op Aspect must actually run. "
     "Non-trivial = >= 2 firings with a bound Aspect and (empty calldata or value or a failing pre join point).",
     [{"test": "TestC05", "quick": {"checks": 700, "shards": 4, "timeout": 900},
       "thorough": {"checks": 1750, "shards": 16, "timeout": 7200}}])

prop("C04", "fault_enumeration",
     "cases = scripted call trees (<= 8 frames per entry, Byzantium..Shanghai, 60% of calls carry value, effects before / "
     "inside / after every call, REVERT / INVALID / small call gas / refused calls / static violations, creates, "
     "selfdestructs, 1-2 invocations of all entry-point kinds). For a tree with F join-point firings the check runs the "
     "fault-free scenario and then ENUMERATES every firing position 0..F-1 in turn with an injected provider failure "
     "(texts: generic / 'out of gas' / 'execution reverted'; all three per position in the thorough tier) and, for a "
     "generated subset of cases, with real failing WASM Aspects (trap, exhausted gas, revert) at that position. Every run is "
     "decided by (1) history invariant: the state digest (balances, nonces, code, tracked storage, self-destruct flags, logs) "
     "at the entry of each failed frame, taken before its value transfer, equals the digest at its exit, and the caller saw "
     "failure; (2) trace replay: the final state after each invocation equals pre-state + the effects (SSTORE, LOG, "
     "transfers, nonce bumps, code deposits, self-destructs) of exactly the frames that succeeded together with all their "
     "ancestors; (3) metamorphic: succeeding Aspects / nothing bound == join points off. Non-trivial = a tree with >= 2 "
     "firing positions or a value-carrying frame that failed while its caller continued with a later effect. Trees also contain creations whose init code ends in a rejected deposit (0xEF code, oversize code, deposit gas) and value-carrying, mostly failing calls to standard precompiles.",
     [{"test": "TestC04", "quick": {"checks": 250, "shards": 4, "timeout": 900},
       "thorough": {"checks": 400, "shards": 16, "timeout": 7200}}])

prop("C06", "exploration",
     "cases = scripted call trees (budget 6, 35% of calls with small fixed gas so that Aspects can exhaust it) x real WASM "
     "Aspect doubles burning {0, 10, 1e3, 3e4, 1e9} loop iterations and ending {ok, trap, revert}, 0-2 per join point on 75% of "
     "the contracts, occasional provider failure. Conservation laws over the event log: callee's first step gas == gas left "
     "by the last pre Aspect; first post Aspect starts with what the callee's last instruction left; Aspects on one join "
     "point are chained; gas handed back to the caller (measured on the caller side from its next step) == gas left by the "
     "last post Aspect when the frame succeeded or reverted, 0 otherwise; no frame of any kind returns more than it was "
     "given; an exhausted Aspect surfaces as vm.ErrOutOfGas BY IDENTITY (frame exit, call-tree node, entry-point result) "
     "with 0 returned; other non-revert post failures return 0; metamorphic: with identical control flow and no forfeiting "
     "frame, leftover gas differs from the run without Aspects by exactly the sum of reported burns. Non-trivial = some "
     "Aspect burned gas and the surrounding frame's gas was observed against it. Each case is also re-checked on variants in which a top-level call is given exactly the gas its pre join point burns, one more, and exactly what the whole frame consumes.",
     [{"test": "TestC06", "quick": {"checks": 600, "shards": 4, "timeout": 900},
       "thorough": {"checks": 1000, "shards": 16, "timeout": 7200}}])

prop("C10", "exploration",
     "cases = scripted call trees (Byzantium..Cancun, all call kinds, creation, re-entrancy, failing frames, 1-3 "
     "invocations on one EVM) whose scripts contain journal actions: optional SSTORE of a generated word, key registration "
     "(VSVJNAL) and 1-2 value journals (VVJNAL) for one of 12 keys (3 slots x 4 packed fields). A shadow journal is driven by "
     "the event log: account = storage context derived from the frame kinds (must equal the executing scope address), call "
     "index = call-tree index of the innermost enclosing CALL/CREATE frame (from the independent call-attempt log), value = "
     "the packed field cut out of the real storage word read at that instant. For every (account, key) the record reached "
     "by slot and by name must be the same and Changes()[idx] must equal the shadow list with immediate repeats collapsed; "
     "no entry may exist under another index or account. Non-trivial = the same key journaled in >= 2 calls, or under "
     "DELEGATECALL/CALLCODE/creation, or in a frame that failed.",
     [{"test": "TestC10", "quick": {"checks": 6000, "shards": 2, "timeout": 600},
       "thorough": {"checks": 7500, "shards": 16, "timeout": 7200}}])

prop("C13", "exploration",
     "cases = scripted call trees with 65% value-carrying calls (0, 1, more than the balance, self-transfers through "
     "re-entrant calls, transfers to new accounts and to contracts under construction), frames that fail later, provider "
     "failures, 1-3 invocations of all entry-point kinds. The harness Transfer wrapper logs (from, to, balances before and "
     "after) of every transfer; the owning call index is the call-tree index of the frame being entered (independent "
     "call-attempt log). For every account and index Balance(acct).Changes()[idx] must equal from-before, to-before, "
     "from-after, to-after restricted to the account with immediate repeats collapsed; no other entry may exist. "
     "Non-trivial = >= 2 transfers incl. a zero-value one, a self-transfer or one in a failed frame. Half of the trees also register and journal storage keys.",
     [{"test": "TestC13", "quick": {"checks": 8000, "shards": 2, "timeout": 600},
       "thorough": {"checks": 10000, "shards": 16, "timeout": 7200}}])

prop("C11", "exploration",
     "cases = histories of 1-60 operations over the exported Tracer API (register top-level key, register nested key under a "
     "(slot, type) parent, journal change, enter call, exit call) drawn over a deliberately tiny universe (2 accounts, 1-3 of 5 "
     "slots incl. hashed positions, offsets {nil,0,1,16,31,32,255,2^64}, 3 type ids, names {'',a,b,c}, 4 index keys) so that "
     "shared slots / shared locations / shared paths are frequent; plus a bounded-EXHAUSTIVE enumeration of all histories up "
     "to length 2 (thorough: 3) over a 58-operation alphabet (3 480 resp. 198 592 histories). Reference model = set of accepted registrations and changes; "
     "after every step: I1 path lookup and (slot, offset, type) lookup of every accepted key reach the same record; I2 an "
     "accepted change is the last entry under the current call index in both views and a change for a registered key is "
     "accepted; I3 invalid offset / unknown parent / unregistered key are refused and a refused operation leaves EVERY "
     "query result unchanged (full observable snapshot); I4 repeating an accepted registration changes nothing; I5 reported "
     "child indices == indices accepted under the node. Conflicting registrations may be refused or aliased, but whatever "
     "is accepted must satisfy I1-I5. Non-trivial = two accepted keys share a slot and a change was accepted in it. Offsets include values that alias a valid one under 8- or 64-bit narrowing; index keys include the empty key and a single zero byte.",
     [{"test": "TestC11", "quick": {"checks": 6000, "shards": 4, "timeout": 600},
       "thorough": {"checks": 10000, "shards": 16, "timeout": 7200}},
      {"test": "TestC11Exhaustive", "quick": {"checks": 1, "shards": 1, "timeout": 600},
       "thorough": {"checks": 1, "shards": 1, "timeout": 3000}}])

prop("C19", "exploration",
     "cases = generated TREES of EVM and Aspect frames (depth <= 5, width <= 3; frames of all call kinds, creates, "
     "self-destructs, precompile targets; per Call frame 0-3 Aspect executions on the pre and on the post join point, the last "
     "one possibly failing; 0-2 EVM calls inside an Aspect execution, recursively with their own join points; optional "
     "pre-/post-transaction Aspects) x tracer (callTracer: onlyTopCall, withLog; flatCallTracer: convertParityErrors, "
     "includePrecompiles). The tree is linearised into the callback sequence the EVM emits (tx start, [pre-tx aspects], start, "
     "pre aspects, calls, post aspects, end, [post-tx aspects], tx end) and fed to the real tracer; the decoded result must "
     "not panic and must equal the tree: every frame exactly once under its issuer (frame or Aspect execution), every Aspect "
     "execution with its own gasUsed/output/error; flat form: subtraces == emitted children, trace addresses unique, "
     "prefix-closed and in the order pre join points, calls, post join points, precompile calls pruned where they happened. "
     "Each frame carries a unique gas value by which it is recognised. Second stage (hybrid): scripted call trees run on the "
     "real EVM with 0-3 real WASM Aspects (no-op / burning / trapping / reverting) per join point while the real callTracer / "
     "flatCallTracer listens; the tree rebuilt from the recorded event stream (frames, Aspect executions with gas in / out, "
     "error) is the oracle's input and must equal the decoded tracer result. Non-trivial = >= 2 Aspects on one join point or "
     "a call inside an Aspect. Aspect frames are also compared for identity (from, to, input, aspect id) and the flat result object (presence, gasUsed, output) for EVM and Aspect frames.",
     [{"test": "TestC19", "quick": {"checks": 30000, "shards": 2, "timeout": 600},
       "thorough": {"checks": 37500, "shards": 16, "timeout": 7200}},
      {"test": "TestC19Hybrid", "quick": {"checks": 150, "shards": 4, "timeout": 900},
       "thorough": {"checks": 400, "shards": 16, "timeout": 7200}}])

prop("C09", "exploration",
     "cases = one journal key per case, executed as real byte-code (registration opcode VSVJNAL/RSVJNAL, then VVJNAL/VRJNAL, "
     "then a marker SSTORE) by the top frame, through a CALL, or through CALL+DELEGATECALL, on every fork Frontier..Cancun, "
     "over storage prepared in the pre-state. Value keys: slot (small ints / hashed / leading-zero / random) x word (random, "
     "all ones, sparse, counting) x (offset, width): valid pairs with offset+width<=32, offset in {32,33,255,256,2^64,2^255}, "
     "width in {33,64,255,2^32,2^64,2^256-1}, offset+width>32. Reference keys: strings of length {0,1,5,30,31,32,33,40,63,64,"
     "65,100,130} or random 0..130 with random / all-zero / leading-zero content, dirty bytes after the end, poisoned "
     "neighbour slots, and invalid encodings (short form with length>=32, long form with length<32). Oracle = independent "
     "decoder of Solidity's storage layout applied to the pre-state: valid => the frame continues and the last entry under "
     "the executing call index, reached by name AND by (slot, offset, type), equals the decoded bytes; invalid => the frame "
     "fails at that instruction and nothing is recorded; never a panic. Non-trivial = packed field with offset>0 and "
     "0<width<32, string with leading zero byte or length>=31, or an invalid case. A third of the valid cases re-journal the variable after overwriting the slot with alternating contents (A, B, A ...): last recorded value and the whole list of that call are compared.",
     [{"test": "TestC09", "quick": {"checks": 10000, "shards": 2, "timeout": 600},
       "thorough": {"checks": 12500, "shards": 16, "timeout": 7200}},
      {"fuzz": "FuzzC09", "thorough": {"fuzztime": "90s", "timeout": 1500}}])

prop("C14", "exploration",
     "cases = (precompile 0x64 / 0x65 / 0x66) x (CALL, CALLCODE, DELEGATECALL, STATICCALL) x depth (0 = entry point straight "
     "to the precompile, 1-3 = wrapper contract behind 0-2 forwarding proxies) x calling code optionally running under "
     "DELEGATECALL of a proxy x gas argument {0, 4999, 5000, 5001, ample} x forks {Byzantium, Petersburg, Istanbul | Berlin, "
     "London, Shanghai, Cancun} x host reply (generated value or error) x payload: 0x64 lengths {0,1,19,20,21,52,100}; 0x65 "
     "lengths {0,1,31,32,33,64,80}; 0x66 valid abi.encode(bytes,bytes) (canonical or with gaps) mutated by truncation, head / "
     "length words from {0,31,32,33,63,64,96,128,2^31,2^63,2^64-32,2^64-1,2^64,2^256-1, len-32, len-31, len, len-33}, trailing "
     "garbage. Oracle = host-callback recorder + independent overflow-safe ABI decoder: host called iff the payload carries "
     "the item, with exactly (address,key) / hash / (key,value); return data == host reply; host error => call fails; "
     "undecodable payloads >= 128 bytes => error and no host call; a write is recorded under the storage-context address of "
     "the frame whose call reached the precompile, or refused with an error, never elsewhere, never a panic; successful calls "
     "consume exactly 5000 gas, less gas => out of gas and no host call; before Berlin no host call. Non-trivial = payload "
     ">= 128 bytes, a non-CALL kind, or an underpaid call.",
     [{"test": "TestC14", "quick": {"checks": 12000, "shards": 2, "timeout": 600},
       "thorough": {"checks": 15000, "shards": 16, "timeout": 7200}},
      {"fuzz": "FuzzC14", "thorough": {"fuzztime": "90s", "timeout": 1500}}])

prop("C12", "exploration",
     "cases = (75%) generated programs (C01 generator in a hermetic mode: no GAS / PC / code-introspection opcodes, constant "
     "call gas, no wild jumps or raw bytes) into which well-formed journal blocks are inserted at generated points: register "
     "a key of a fixed conflict-free family that covers all eight journal opcodes (top-level value / reference keys, nested "
     "members with value / reference index keys), then journal it once or twice; a driver contract runs every generated "
     "contract through CALL, STATICCALL and DELEGATECALL; all forks Frontier..Cancun. Metamorphic pair with IDENTICAL byte "
     "layout: P has [JOP, JUMPDEST x (k-1)] at every site, P' has k POPs. Required: equal return data / success / logs / "
     "created addresses, equal balances, nonces and storage, identical (pc, op, stack, memory hash, return data, storage "
     "context) at every step outside the sites; every executed journal instruction succeeds and charges one non-zero "
     "constant per opcode across the whole run (measured); leftover gas differs exactly by sum(fee + (k-1) - 2k) when no "
     "frame forfeits gas. Runs in which some frame runs out of gas are discarded (gas would be observable). (25%) "
     "malformed operand sets (unregistered key, offset/size out of range, offset+size beyond the word, invalid string "
     "encoding, unknown parent, stack underflow) in top-level / CALL / STATICCALL / DELEGATECALL frames: P versus P'' with "
     "INVALID in place of the journal instruction must have identical outcome INCLUDING gas and identical world state. "
     "Non-trivial = a journal instruction executed in a nested or static frame, or a malformed case. Malformed operands: fixed list plus systematic mutation of exactly one operand of a well-formed set per role (pointer, offset, size, ids). One case in seven drives the contracts with little gas: a journal instruction that has its fee available must not run out of gas.",
     [{"test": "TestC12", "quick": {"checks": 1500, "shards": 4, "timeout": 900},
       "thorough": {"checks": 3750, "shards": 16, "timeout": 7200}}])

prop("C03", "exploration",
     "cases = five generators, all forks Frontier..Cancun, all six entry points, join points on with and without bound "
     "(failing) Aspects and provider failures: (35%) generated programs in which the eight journal opcodes are favoured and "
     "get hostile operands (pointers around the scratch area / end of memory / 2^63 / 2^64-1 / 2^255, offsets and sizes "
     "around 31/32/33, prepared slots), over storage holding valid, invalid and huge string length words; (30%) single "
     "journal-instruction probes: memory of a chosen size with a chosen length word (0..2^255) at a chosen place, optional "
     "prior registration, then one journal opcode with boundary operands at call depth 0-3 under CALL / CALLCODE / "
     "DELEGATECALL / STATICCALL; (15%) the C14 payload space against 0x64-0x66; (10%) random bytes as code / init code; "
     "(10%) scripted call trees with journal actions and trapping / exhausting / reverting Aspects. Validity predicate: no "
     "entry point panics (recovered at the harness boundary; a dying child is re-run from the saved case), the call-tree "
     "cursor is at rest after every top-level return, the event stream is balanced, and an appended trivial top-level call "
     "is announced by CaptureStart (call depth back to 0). A state wrapper counts reads per instruction and aborts "
     "instructions beyond 1e5 reads (reported as unbounded work, C20's open finding). Non-trivial = a journal opcode "
     "executed, an Artela precompile reached, or an exceptional halt. Also: boundary storage words 2^k +- d, 1024-depth and address-collision templates, code tails ending in a truncated PUSHn after a taken jump, calldata in buffers of exactly its length.",
     [{"test": "TestC03", "savelast": True, "quick": {"checks": 5000, "shards": 4, "timeout": 900},
       "thorough": {"checks": 12500, "shards": 16, "timeout": 7200}},
      {"fuzz": "FuzzC03", "thorough": {"fuzztime": "120s", "timeout": 1500}}])

prop("C20", "exploration",
     "cases = single-instruction probes on every fork: (30%) VRJNAL over a stored string whose length word is 0..2^20 (5%: "
     "2^24, 2^32, 2^62); (30%) the four memory-reading key-registration opcodes with a name / index key of 0..2^20 bytes "
     "lying in allocated memory; (20%) the three Artela precompiles with payloads of 0..256 KiB; (20%) any standard or "
     "journal opcode with generated (hostile) operands over storage holding string length words up to 2^20. Work meter: a "
     "debug tracer records, per step, the cumulative number of state reads (counting StateDB wrapper) and "
     "runtime.MemStats.TotalAlloc; an instruction's work is the difference to the next step of the same frame, its charge "
     "the gas actually consumed. Bounds reads <= a*gas+b, bytes <= c*gas+d with a, b, c, d CALIBRATED, not guessed: the "
     "same meter runs 92 probe programs of standard opcodes / precompiles (memory expansion, copies, hashing, logs, "
     "storage, account reads, identity/sha256 with 0..256 KiB) on the UPSTREAM interpreter and a, c are 4x the worst ratios "
     "observed (reported in the evidence). Instructions beyond 2e5 reads are cut off and reported. Non-trivial = a length "
     ">= 2^20 / a large payload, or an instruction that touched >= 2 state entries. Further families: hostile length words in 0x66 payloads with little more than the fee forwarded; histories of one flat-fee journal instruction executed 64..20000 times on new locations (growth law over window means); one JUMP repeated inside init code of up to 1 MiB (bound on the window mean); BLOCKHASH probes with every host block-hash lookup observed (only the 256 most recent blocks may be asked for).",
     [{"test": "TestC20", "quick": {"checks": 1500, "shards": 4, "timeout": 900},
       "thorough": {"checks": 2500, "shards": 16, "timeout": 7200}}])

prop("C16", "exploration",
     "cases = scripted scenarios (Byzantium..Cancun, 1-3 contracts, 2-8 journal blocks each that register several members "
     "under the same parent key with value / reference index keys and journal them, CALL / DELEGATECALL between the "
     "contracts, value transfers, 1-2 invocations; reference typed keys over short and long stored strings as well). The run "
     "is split over 8 processes (package-level state leaking between executions shows only until it has poisoned the "
     "process). Each case is executed 8 times (thorough: 32) on fresh EVMs over equal "
     "pre-states, alternately with and without a debug tracer, and for half of the cases an unrelated scenario runs on its "
     "own EVM between the repetitions. Oracle: a canonical rendering of return data, gas, error, state root, logs, the "
     "whole call tree and EVERY query result of the state-change tracer with lists IN THE ORDER RETURNED (Children, "
     "ChildrenIndices, IndicesOfChanges, call children, change lists, lookups by slot) must be byte-identical across the "
     "repetitions; the tracer of the unrelated EVM must know nothing about accounts only the other one touched. "
     "Non-trivial = some returned list has >= 2 elements. Second stage (TestC16Tx), ANY transaction: T is a call of "
     "0x64-0x66 of any kind / depth with ABI payloads, a generated program (all forks, extra EIPs, journal sites, Artela "
     "precompiles) or a scripted tree with real Aspects bound; it runs 4 times (thorough 8) on fresh EVMs and for 85% of "
     "the cases an unrelated transaction runs on another EVM in between - mostly on the SAME fork, with other extra EIPs, "
     "reaching the context-carrying precompiles by plain CALL from a drawn caller (everything EVMs of one process could "
     "share); a sixth of the cases pairs a program on a fork WITHOUT extra EIPs, favouring the instructions extra EIPs "
     "re-price, with an unrelated execution on the same fork WITH extra EIPs; the stage is split over 8 processes. "
     "Oracle: the rendering above PLUS every host call made through the precompiles (function, caller address, "
     "key, value) must be identical in all repetitions. Non-trivial there = an unrelated execution ran in between and T "
     "had >= 2 frames.",
     [{"test": "TestC16", "quick": {"checks": 350, "shards": 8, "timeout": 600},
       "thorough": {"checks": 500, "shards": 16, "timeout": 7200}},
      {"test": "TestC16Tx", "quick": {"checks": 600, "shards": 8, "timeout": 600},
       "thorough": {"checks": 2000, "shards": 16, "timeout": 7200}}])

prop("C17", "exploration",
     "cases = 3-10 scenarios per case (always the pair 'London without / with extra EIP-3855 executing PUSH0', plus generated "
     "programs, scripted call trees with journal instructions, trees with real WASM Aspects bound, key-tree heavy scripts; "
     "with and without extra EIPs). Built with the Go race detector (halt on first report). Every scenario runs TWICE "
     "concurrently FIRST, all goroutines released by one barrier, each on its own StateDB and EVM but sharing one "
     "configuration as a host does; a sequential pass afterwards gives each scenario's reference rendering (outcomes, state "
     "roots, call tree): every concurrent result must equal it and the race detector must stay silent. Always present: the "
     "context pair (two contracts looping CALL 0x66 / 0x64) and the undefined-opcode pair (frames ending on byte values no "
     "fork defines, join points on). Cancellation, harness-owned schedule: a looping program (plain loop / loop "
     "calling a helper / loop re-entering itself by STATICCALL) is cancelled from the debug-tracer callback at a generated "
     "step 1..400: no panic, balanced frames, cursor at rest, Cancelled() true and every JUMP/JUMPI executed afterwards is "
     "the last instruction of its frame. Cross-goroutine variant (30%): another goroutine cancels after a generated number "
     "of observed steps (finite gas bounds the run; only safety is asserted). Non-trivial = >= 2 generated scenarios.",
     [{"test": "TestC17", "savelast": True, "quick": {"checks": 40, "shards": 4, "timeout": 900},
       "thorough": {"checks": 100, "shards": 16, "timeout": 7200}}], race=True)

# ---------------------------------------------------------------------------
# Text for MANIFEST.json (gen_manifest.py)

MANIFEST_TEXT = {
    "C01": {
        "level_text": "Differential property-based testing: generated programs/pre-states/configurations are executed on the "
                      "upstream v1.12.0 interpreter and on artela-evm and every observable outcome (return data, error class, "
                      "leftover gas, created address, logs, refund, self-destructs, state root) must agree, also across tracer and "
                      "join-point configurations. Sampling, not proof: strength = reach of the generator, reported as "
                      "(fork x opcode) execution coverage in the evidence.",
        "design_ref": "DESIGN.md section 4, C01",
        "level_note": "Trusted: upstream core/vm as oracle, geth's state.StateDB on both sides, the scenario generator's host "
                      "preconditions. Programs touching 0x64-0x66 or journal opcode bytes are out of the property's domain and "
                      "are discarded (counted).",
        "technique": "property-based differential testing against a reference implementation (rapid; thorough tier adds coverage-guided go test -fuzz on the same oracle)",
    },
    "C02": {
        "level_text": "Differential property-based testing of the per-step gas stream plus a generated gas-limit sweep around "
                      "every intermediate gas value of the run, against upstream v1.12.0. Sampling of programs and limits, not "
                      "proof; exhaustive over limits only for the short runs selected for a full sweep in the thorough tier.",
        "design_ref": "DESIGN.md section 4, C02",
        "level_note": "Trusted: upstream core/vm as oracle; the recorder copies (gas, cost) at CaptureState/CaptureFault, "
                      "CaptureEnter/Exit, CaptureStart/End.",
        "technique": "property-based differential testing of step-level gas with generated gas-limit sweeps (rapid; thorough tier adds coverage-guided go test -fuzz on the same oracle)",
    },
    "C20": {
        "level_text": "Metamorphic / calibrated work metering under property-based probe generation: per-instruction state reads "
                      "and allocated bytes are measured and compared with bounds calibrated on the upstream interpreter's "
                      "own standard opcodes.",
        "design_ref": "DESIGN.md section 4, C20",
        "level_note": "'Bounded by a fixed multiple' is decided relative to 4x the worst reads-per-gas and bytes-per-gas ratio of "
                      "the protocol's own opcodes (worst case: Frontier EXTCODECOPY/EXTCODESIZE loading 20 KB of code for 20 "
                      "gas); an amplification below that is not flagged. Wall-clock time is never a verdict. Hashing work is "
                      "covered through allocation / read counts only.",
        "technique": "property-based single-instruction probes with a calibrated work meter; growth law over histories of one flat-fee instruction; host block-hash lookups confined to the 256-block window (rapid)",
    },
    "C03": {
        "level_text": "Robustness property testing / fuzzing with a validity predicate: hostile generated byte-code, operands, "
                      "memory and storage contents and precompile payloads; the oracle is 'returns a result or an error, and "
                      "the bookkeeping is closed', checked from inside the process with a child-death protocol for fatal "
                      "errors.",
        "design_ref": "DESIGN.md section 4, C03",
        "level_note": "Stored string lengths >= 2^20 drive VRJNAL into an unbounded read loop (open finding of C20): such "
                      "instructions are cut off by the work governor after 1e5 reads and counted, so that the search continues "
                      "behind them. Sampling; absence of crashes is not proved.",
        "technique": "property-based robustness testing with hostile generators and a validity predicate (rapid; thorough tier adds coverage-guided go test -fuzz on the same oracle)",
    },
    "C04": {
        "level_text": "Fault enumeration over generated call trees: every join-point firing position of every generated tree is "
                      "failed in turn (provider errors of three classes; real failing WASM Aspects for a subset), and each run is "
                      "decided by a history invariant (entry digest == exit digest of failed frames), by trace replay of the "
                      "effects of the successful frames, and by a metamorphic relation. Trees are sampled; positions within a "
                      "tree are enumerated exhaustively.",
        "design_ref": "DESIGN.md section 4, C04",
        "level_note": "Trusted: the debug-tracer stream and the Transfer/CanTransfer wrappers as observation points; the small "
                      "effect vocabulary of the trace replay (SSTORE, LOGn, transfers, creator nonce, new-account nonce, code "
                      "deposit, SELFDESTRUCT). The fault-free run is cross-checked against upstream (label, not verdict).",
        "technique": "fault enumeration at every join-point firing of generated call trees, decided by history invariant + trace replay (rapid)",
    },
    "C06": {
        "level_text": "Property-based testing of gas conservation laws over the event log of generated call trees with real "
                      "gas-burning WASM Aspects at generated join points, plus a metamorphic comparison with the Aspect-free run and "
                      "boundary variants of each case in which a call is given exactly the gas its join points burn.",
        "design_ref": "DESIGN.md section 4, C06",
        "level_note": "The statement fixes the gas outcome for exhausted Aspects and for non-revert post failures; for an Aspect "
                      "that reverts only 'never more than given' and 'an Aspect never reports more than it got' are asserted. "
                      "Out-of-gas is only injected through a really exhausted Aspect.",
        "technique": "property-based testing of conservation laws over an event log + metamorphic relation (rapid, real WASM aspects)",
    },
    "C05": {
        "level_text": "Property-based testing of history invariants over the merged event log of generated call trees with real "
                      "WASM Aspects bound (through the real djpm/aspect-runtime path) and injected provider failures.",
        "design_ref": "DESIGN.md section 4, C05",
        "level_note": "Read as: the Call entry point (top-level Call and the CALL opcode) - the only frames the call tree records; "
                      "join points on CALLCODE/DELEGATECALL/STATICCALL/CREATE frames are neither required nor forbidden. "
                      "Payloads are only observable where an Aspect is bound; elsewhere the provider-lookup log is checked.",
        "technique": "property-based testing with history invariants over an event log; real WASM aspect doubles (rapid)",
    },
    "C07": {
        "level_text": "Property-based testing of a structural invariant over generated executions: the recorded call tree is "
                      "checked against tree axioms and against a call-attempt count and nesting derived independently from the "
                      "debug-tracer instruction stream.",
        "design_ref": "DESIGN.md section 4, C07",
        "level_note": "Trusted: the debug-tracer stream as ground truth for which calls were attempted. Executions that panic "
                      "are C03's subject and are only counted here.",
        "technique": "property-based testing of a structural invariant with an independent event-stream oracle (rapid)",
    },
    "C08": {
        "level_text": "Property-based testing against an independent log: every call attempt is reconstructed from the "
                      "instruction stream (operands and memory copied at the moment of the call) and compared field by field "
                      "with the call tree after the transaction, so aliasing with live memory shows.",
        "design_ref": "DESIGN.md section 4, C08",
        "level_note": "Trusted: debug-tracer stream; EIP-150 arithmetic for the gas passed to refused creates. For refused "
                      "attempts (no frame) the error text is not predicted, only its presence.",
        "technique": "property-based testing against an independent event-log oracle (rapid)",
    },
    "C09": {
        "level_text": "Property-based testing against an independent reference decoder of Solidity's storage layout: generated "
                      "(slot, word, offset, width) and (slot, string encoding) cases are journaled by real byte-code and the "
                      "recorded bytes are compared with the decoded pre-state through both lookup views.",
        "design_ref": "DESIGN.md section 4, C09",
        "level_note": "String lengths are bounded by 130 bytes here (huge stored lengths are C20's subject). Zero-width fields are "
                      "not generated (the statement does not say whether they denote a valid field).",
        "technique": "property-based testing against an independent reference decoder (rapid; thorough tier adds coverage-guided go test -fuzz on the same oracle)",
    },
    "C10": {
        "level_text": "Property-based testing against a shadow journal rebuilt from the event log of generated call trees "
                      "(independent account and call-index derivation, real storage word read at the instant of journaling).",
        "design_ref": "DESIGN.md section 4, C10",
        "level_note": "Journal instructions executed under a top-level CALLCODE/DELEGATECALL/STATICCALL entry (no enclosing "
                      "CALL/CREATE frame exists) are outside the statement and are not generated. Value decoding itself is C09's.",
        "technique": "property-based testing against a shadow model driven by the event log (rapid)",
    },
    "C11": {
        "level_text": "Model-based stateful property testing of the key tree through its exported API (rapid-drawn histories, "
                      "invariants after every step, full observable snapshot before/after) plus bounded-exhaustive enumeration "
                      "of all short histories over a reduced alphabet.",
        "design_ref": "DESIGN.md section 4, C11",
        "level_note": "For conflicting registrations (a path re-registered at another location, a second path to a registered "
                      "location) the statement does not prescribe accept-and-alias versus refuse; the oracle accepts either. "
                      "Order of returned slices is C16's subject.",
        "technique": "stateful model-based property testing + bounded-exhaustive enumeration (rapid)",
    },
    "C12": {
        "level_text": "Metamorphic property-based testing: each generated program is executed with its journal instructions and "
                      "with operand pops (resp. INVALID) in their place, same byte layout, and everything a contract can observe "
                      "is compared step by step; the fee is measured and must be one constant per opcode.",
        "design_ref": "DESIGN.md section 4, C12",
        "level_note": "Gas is made unobservable by construction (no GAS opcode, constant call gas) and runs that hit out-of-gas are "
                      "discarded and counted. The fee constant is measured over the run, not hard-coded.",
        "technique": "metamorphic property-based testing with identical byte layout; systematic one-operand mutation for malformed operands; flat-fee invariant under low gas (rapid)",
    },
    "C13": {
        "level_text": "Property-based testing of a history invariant: the balance journal is compared with the balances the "
                      "harness observed around every transfer of generated call trees.",
        "design_ref": "DESIGN.md section 4, C13",
        "level_note": "Trusted: BlockContext.Transfer wrapper as observation point; call-tree indices from the independent "
                      "call-attempt log.",
        "technique": "property-based testing of a history invariant against wrapper observations (rapid)",
    },
    "C19": {
        "level_text": "Model-based property testing of the two Aspect-aware call tracers: generated frame trees are linearised "
                      "into well-nested callback streams; the tracer output is decoded and compared with the tree.",
        "design_ref": "DESIGN.md section 4, C19",
        "level_note": "Synthetic streams (the tracers are driven through their exported callbacks); LOG capture is not part of "
                      "the streams (no exported constructor for vm.Stack). With onlyTopCall only the top frame is compared. "
                      "Calls issued by pre-transaction Aspects never target precompiles (pruning before CaptureStart is "
                      "not determined by the statement).",
        "technique": "model-based property testing: generated frame trees vs decoded tracer output (rapid)",
    },
    "C14": {
        "level_text": "Property-based testing of the three Artela precompiles through real byte-code callers of every call kind "
                      "against a host-callback recorder and an independent strict ABI decoder.",
        "design_ref": "DESIGN.md section 4, C14",
        "level_note": "Payloads below the minimum length (20 / 1 / 128 bytes) may be rejected or answered with empty success, but "
                      "must not reach the host. A decodable context write may be refused with an error (e.g. for call kinds "
                      "that carry no caller context) but never attributed to another address.",
        "technique": "property-based testing with an independent decoder and host-callback recorder (rapid; thorough tier adds coverage-guided go test -fuzz on the same oracle)",
    },
    "C15": {
        "level_text": "Model-based property testing: executable reference models of EIP-1153 and EIP-5656 (written from the "
                      "EIPs) are compared with every TLOAD/TSTORE/MCOPY the generated programs execute, observed through the "
                      "debug-tracer stream (stack, memory before/after, cost). No upstream differential: go-ethereum v1.12.0 "
                      "has no MCOPY and places EIP-1153 at other opcode bytes.",
        "design_ref": "DESIGN.md section 4, C15",
        "level_note": "Trusted: the two small models in harness/c15_test.go, the recorder. Memory contents above 64 KiB are "
                      "not compared (counted).",
        "technique": "model-based property testing against executable EIP models (rapid)",
    },
    "C16": {
        "level_text": "Property-based testing of a determinism relation: repeated execution of generated transactions in one "
                      "process (Go randomises map iteration per range statement) must render identically, interleaved with "
                      "unrelated executions.",
        "design_ref": "DESIGN.md section 4, C16",
        "level_note": "A nondeterminism that needs more than 8 (32) repetitions or another process to show is missed; map-order "
                      "dependence over lists of n >= 2 elements shows with probability 1 - (1/n!)^(reps-1) per case.",
        "technique": "property-based testing of a repetition (determinism) relation over journal scripts and over arbitrary transactions with unrelated executions on other EVMs in between (rapid, 8 processes per stage)",
    },
    "C17": {
        "level_text": "Property-based concurrency testing under the Go race detector: generated scenario sets run concurrently "
                      "and are compared with their sequential results; cancellation is decided under a harness-owned schedule "
                      "(the cancel point is a generated step index).",
        "design_ref": "DESIGN.md section 4, C17",
        "level_note": "The race detector finds unsynchronised accesses on executed paths independently of the interleaving, but "
                      "interleavings are sampled, not enumerated. Cross-goroutine cancellation is a safety smoke test "
                      "(promptness is decided only under the owned schedule). Needs the -race build (warmed by setup).",
        "technique": "property-based concurrency testing with the race detector + owned cancel schedule (rapid)",
    },
    "C18": {
        "level_text": "Differential property-based testing of the complete debug-tracer callback stream and of six inherited "
                      "tracers against their upstream originals, plus a history invariant (balanced LIFO frames) under "
                      "generated join-point failures.",
        "design_ref": "DESIGN.md section 4, C18",
        "level_note": "Trusted: upstream eth/tracers and core/vm as oracle. Tracers that take their environment from "
                      "CaptureStart are only driven through call/create entry points (upstream's own tracers crash otherwise).",
        "technique": "property-based differential testing of event streams and tracer outputs + history invariant (rapid; thorough tier adds coverage-guided go test -fuzz on the same oracle)",
    },
}

# Properties not (yet) claimed: reason per property. Kept current as checks are added.
NOT_APPLICABLE = {}
