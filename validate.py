#!/opt/veriftools/pyvenv/bin/python
import json, glob, sys, jsonschema
ok = True
try:
    jsonschema.validate(json.load(open('/verif/MANIFEST.json')), json.load(open('/root/.vp/MANIFEST.schema.json')))
except Exception as e:
    ok = False; print("MANIFEST invalid:", e)
sch = json.load(open('/root/.vp/EVIDENCE.schema.json'))
for f in sorted(glob.glob('/verif/evidence/*.json')):
    try:
        jsonschema.validate(json.load(open(f)), sch)
    except Exception as e:
        ok = False; print(f, "invalid:", str(e)[:300])
print("valid" if ok else "INVALID")
sys.exit(0 if ok else 1)
